"""Runs ONE catalogue call alone in a fresh interpreter and prints its canonical outcome as JSON (baseline for C20)."""
import json
import os
import sys
import warnings

os.environ.setdefault("MPLBACKEND", "Agg")
warnings.filterwarnings("ignore")
REPO = os.environ.get("PV_REPO", "/repo")       # the tree under test (default: /repo's working tree)
if REPO not in sys.path:
    sys.path.insert(0, REPO)


def main():
    import logging
    logging.disable(logging.CRITICAL)
    from pv import catalogue
    name, seed = sys.argv[1], int(sys.argv[2])
    entries = {e.name: e for e in catalogue.build()}
    e = entries[name]
    outcome, untouched = catalogue.run_entry(e, seed if e.cls == "random" else None)
    sys.stdout.write("\n@@RESULT@@" + json.dumps(dict(name=name, outcome=outcome, untouched=untouched)) + "\n")


if __name__ == "__main__":
    main()
