"""Generic code -> spec trace validation: sessions (JSON) are fed to a Trace*.tla module which steps the specification's
machine along the logged events and prints one total verdict per session."""
from __future__ import annotations

import json
import os
import shutil
import tempfile

from . import tlc
from .core import MachineryFailure


def validate(ctx, module, sessions, *, constants="", invariants=(), properties=(), workers=16, count=True, timeout=1800,
             spec="TraceSpec", heap="2g", allow_stuck=False):
    """sessions: list of dicts with at least sid and events. Returns {sid: [ {l, op, failed[]} ]}."""
    if not sessions:
        return {}
    d = tempfile.mkdtemp(prefix="pvtr_")
    try:
        tf = os.path.join(d, "trace.json")
        with open(tf, "w") as f:
            json.dump(sessions, f)
        cfg = os.path.join(d, module + ".cfg")
        with open(cfg, "w") as f:
            f.write(f"SPECIFICATION {spec}\n")
            if constants.strip():
                f.write("CONSTANTS\n" + constants + "\n")
            for i in invariants:
                f.write(f"INVARIANT {i}\n")
            for p in properties:
                f.write(f"PROPERTY {p}\n")
            f.write("INVARIANT EmitVerdict\nCHECK_DEADLOCK FALSE\n")
        res = tlc.run(module, cfg, workers=min(workers, max(1, len(sessions))), env={"PV_TRACE_FILE": tf}, timeout=timeout, heap=heap)
    finally:
        shutil.rmtree(d, ignore_errors=True)
    if not res.ok:
        raise MachineryFailure(f"{module}: invariant {res.violated} violated on a recorded trace:\n{res.error_trace[:3000]}")
    verdicts = {}
    for doc in res.printed:
        if isinstance(doc, dict) and "verdict" in doc:
            verdicts[doc["sid"]] = doc["verdict"]
    missing = [s["sid"] for s in sessions if s["sid"] not in verdicts]
    if missing and allow_stuck:
        # the caller judges such sessions on their API-level observations alone: the INTERNAL event structure recorded from the
        # implementation is not a behaviour of the specification's machine (drift, e.g. another task structure)
        for sid in missing:
            verdicts[sid] = None
        missing = []
    if missing:
        raise MachineryFailure(f"{module}: sessions {missing[:5]} were not consumed to the end (not a behaviour of the "
                               f"specification's machine; harness/spec mismatch)\n{res.raw_tail[-2500:]}")
    if count:
        ctx.states += res.distinct
        ctx.transitions += res.generated
        ctx.tlc_runs.append(dict(res.as_dict(), kind="trace_validation", sessions=len(sessions)))
    return verdicts


def failures(verdict):
    return [(ev["l"], ev["op"], c) for ev in verdict for c in ev["failed"]]
