"""Generic driver for the properties decided on the NNSearch machine (C01 C03 C04 C07 C10 C14)."""
from __future__ import annotations

import copy
import os
import tempfile

from . import nncommon as nc
from .core import MachineryFailure
from .nncommon import AA

CFG_HEAD = """SPECIFICATION Spec
CONSTANTS
  Letters = {letters}
  MaxLen = {maxlen}
  MaxN = {maxn}
  MaxN2 = {maxn2}
  Ks = {ks}
  Engines = {engines}
  Modes = {modes}
  CdFams = {cdfams}
  MaxCs = {maxcs}
  Comps = {comps}
  MaxLookups = {maxlookups}
  AsFound = {asfound}
"""


def tla_set(xs):
    def one(x):
        return f'"{x}"' if isinstance(x, str) else str(x)
    return "{" + ", ".join(one(x) for x in xs) + "}"


def write_cfg(path, *, letters, maxlen, maxn, maxn2=0, ks=(1,), engines=("symdel",), modes=("lev",), cdfams=("none",),
              maxcs=(nc.INF,), comps=(1,), maxlookups=0, asfound=(), invariants=(), properties=(), emit=True):
    txt = CFG_HEAD.format(letters=tla_set(letters), maxlen=maxlen, maxn=maxn, maxn2=maxn2, ks=tla_set(ks),
                          engines=tla_set(engines), modes=tla_set(modes), cdfams=tla_set(cdfams), maxcs=tla_set(maxcs),
                          comps=tla_set(comps), maxlookups=maxlookups, asfound=tla_set(asfound))
    for i in invariants:
        txt += f"INVARIANT {i}\n"
    if emit:
        txt += "INVARIANT EmitCase\n"
    for p in properties:
        txt += f"PROPERTY {p}\n"
    with open(path, "w") as f:
        f.write(txt)


BASE_INVS = ("TypeOK", "Exact", "NoRepeat", "NoSelf", "Symmetric", "DenseExact")


class ModelRun:
    """One TLC configuration of MCNN, generated on the fly so that the bounds live in one place (the property module)."""

    def __init__(self, name, **kw):
        self.name = name
        self.kw = kw


def run_model(ctx, mr: ModelRun, *, workers=16, expect_violation=None, coverage=False, timeout=3000):
    d = tempfile.mkdtemp(prefix="pvcfg_")
    try:
        path = os.path.join(d, mr.name + ".cfg")
        kw = dict(mr.kw)
        kw.setdefault("invariants", BASE_INVS)
        if expect_violation:
            kw["emit"] = False
        write_cfg(path, **kw)
        res = ctx.mc("MCNN", path, workers=workers, expect_violation=expect_violation, coverage=coverage, timeout=timeout)
    finally:
        import shutil
        shutil.rmtree(d, ignore_errors=True)
    ctx.tlc_runs[-1]["constants"] = {k: v for k, v in mr.kw.items() if k not in ("invariants", "properties")}
    return res


def default_classify(inp, clause):
    return f"{inp['engine']}/{inp['mode']}/{'two' if inp['two'] else 'self'}/{clause}"


def describe(inp, letters, api):
    strs = [nc.dec(s, letters) for s in inp["seqs"]]
    s2 = [nc.dec(s, letters) for s in inp["seqs2"]] if inp["two"] else None
    extra = ""
    if inp["mode"] == "hamming":
        extra = ", custom_distance='hamming'"
    elif inp["mode"] == "custom":
        extra = f", custom_distance=<{inp['cd']}>, max_custom_distance={'inf' if inp['maxc'] >= nc.INF else inp['maxc'] / 4}"
    if inp["engine"] == "kd" and inp.get("comp", 1) != 1:
        extra += f", compression={inp['comp']}"
    return f"{api or inp['engine']}({strs}{', seqs2=' + str(s2) if s2 is not None else ''}, max_edits={inp['k']}{extra})"


def api_for(inp, n=0):
    if inp["engine"] == "symdel":
        return ("nearest_neighbor", "symdel")[n % 2]
    if inp["engine"] == "hash":
        return "LookupDB" if inp["two"] else "hash_based"
    return "kdtree"


def replay_emitted(ctx, res, alphabets, classify=default_classify, every=1, thin=None, budget=None):
    """spec -> code: every behaviour TLC emitted is executed on the real code (under each concrete alphabet).
    budget: when TLC emitted more behaviours than this, a seeded uniform sample of that size is replayed (the model check itself
    is always exhaustive; the evidence records how many behaviours were replayed)."""
    n = 0
    docs = [d for d in res.printed if isinstance(d, dict) and "inp" in d]
    if budget is not None and len(docs) > budget:
        ctx.note(f"{res.cfg}: {len(docs)} behaviours emitted, seeded sample of {budget} replayed")
        docs = ctx.rng.sample(docs, budget)
        ctx.exhaustive_replay = False
    global _RE_CFG
    _RE_CFG = dict(alphabets=alphabets, classify=classify, every=every, thin=thin, prev=None)
    before = ctx.extra.get("drift_behaviours", 0)
    ctx.parallel(list(enumerate(docs, 1)), _replay_emitted_item)
    drift_seen = ctx.extra.get("drift_behaviours", 0) - before
    if drift_seen:
        ctx.note(f"internal-state drift on {drift_seen} replayed behaviours (not a violation)")
    return len(docs)


_RE_CFG = None


def _replay_emitted_item(ctx, i, item):
    n, doc = item
    cfg = _RE_CFG
    alphabets, classify, every, thin = cfg["alphabets"], cfg["classify"], cfg["every"], cfg["thin"]
    prev = cfg["prev"]
    if prev is not None and n % 7 == 0:
        # interleaved repetition: an earlier call repeated after other calls must still give its own answer
        # (result caches keyed on too little, state left behind by another configuration)
        bad, _ = nc.compare_case(prev[0], letters=prev[1], api=prev[2])
        for ev, clause, detail in bad:
            ctx.violation(classify(prev[0]["inp"], clause) + "/after-other-calls",
                          f"{describe(prev[0]['inp'], prev[1], prev[2])} repeated after {describe(doc['inp'], alphabets[0], None)[:120]}: {ev}:{clause} {detail}",
                          dict(kind="replay", doc=prev[0], letters=prev[1], api=prev[2]))
    if every > 1 and n % every:
        return
    inp = doc["inp"]
    if thin is not None and thin(inp) > 1 and n % thin(inp):
        return
    for a_i, letters in enumerate(alphabets):
        if inp["engine"] == "hash" and any(ch not in AA for ch in letters):
            continue            # the hash engine enumerates edits over the 20 amino-acid letters only (its documented domain)
        api = api_for(inp, n + a_i)
        bad, drift = nc.compare_case(doc, letters=letters, api=api)
        ctx.case(dict(kind="replay", call=describe(inp, letters, api), expect=doc["trip"]),
                 nontrivial=len(doc["trip"]) > 0 and a_i == 0)
        if drift:
            ctx.extra["drift_behaviours"] = ctx.extra.get("drift_behaviours", 0) + len(drift)
        for ev, clause, detail in bad:
            ctx.violation(classify(inp, clause), f"{describe(inp, letters, api)} {ev}:{clause} {detail}",
                          dict(kind="replay", doc=doc, letters=letters, api=api))
        cfg["prev"] = (doc, letters, api)
    ctx.traces += 1


def lifted_big(ctx, s, classify, big):
    """Large inputs (beyond any size threshold / blocking of the implementation). s is a recorded session whose result TraceNN has
    just accepted, i.e. its triplets ARE the specification's answer for the session's few sequences. The large input consists of
    `big` positions holding copies of those sequences (idx maps a position to the sequence it copies); its exact answer is the
    accepted answer lifted through idx (copies of one sequence are neighbours at distance 0)."""
    inp = s["inp"]
    join = next(e for e in s["events"] if e["op"] == "Join")
    small = {(a, b): d for a, b, d in join["ret"]}
    m1 = len(inp["seqs"])
    idx1 = list(range(m1)) + [ctx.rng.randrange(m1) for _ in range(big - m1)]
    ctx.rng.shuffle(idx1)
    binp = dict(inp)
    binp["seqs"] = [inp["seqs"][i] for i in idx1]
    if inp["two"]:
        m2 = len(inp["seqs2"])
        big2 = max(m2, big // 3)
        idx2 = list(range(m2)) + [ctx.rng.randrange(m2) for _ in range(big2 - m2)]
        ctx.rng.shuffle(idx2)
        binp["seqs2"] = [inp["seqs2"][i] for i in idx2]
        # a triplet (q, r, d): q a position of seqs2, r a position of seqs
        by = {}
        for (a, b_), d in small.items():
            by.setdefault(a, []).append((b_, d))
        pos1 = {}
        for p_, u in enumerate(idx1):
            pos1.setdefault(u + 1, []).append(p_ + 1)
        want = {}
        for q_, v in enumerate(idx2):
            for b_, d in by.get(v + 1, ()):
                for r_ in pos1.get(b_, ()):
                    want[(q_ + 1, r_)] = d
    else:
        pos1 = {}
        for p_, u in enumerate(idx1):
            pos1.setdefault(u + 1, []).append(p_ + 1)
        want = {}
        for (a, b_), d in small.items():
            for p_ in pos1[a]:
                for q_ in pos1[b_]:
                    want[(p_, q_)] = d
        for u, ps in pos1.items():
            for p_ in ps:
                for q_ in ps:
                    if p_ != q_:
                        want[(p_, q_)] = 0
    letters, api = s["letters"], (s["api"] or None)
    desc = f"{describe(inp, letters, api)[:300]} lifted to {big} positions (copies of the session's sequences)"
    ctx.case(dict(kind="lifted", call=desc, positions=big, expect_pairs=len(want)), nontrivial=len(want) > 0)
    rp = dict(kind="lifted", session=s, idx1=idx1, big=big)
    ctx.extra.setdefault("lifted_large_inputs", []).append(dict(engine=inp["engine"], mode=inp["mode"], two=inp["two"], k=inp["k"], positions=big, expected_pairs=len(want)))
    try:
        got_l = nc.norm_triplets(nc.call_engine(binp, letters, api=api), inp["mode"])
    except Exception as e:      # noqa: BLE001
        ctx.violation(classify(inp, "raised") + "/large-input", f"{desc} raised {type(e).__name__}: {e}"[:500], rp)
        return
    got = {}
    dup = 0
    for a, b_, d in got_l:
        dup += (a, b_) in got
        got[(a, b_)] = d
    if dup:
        ctx.violation(classify(inp, "repeated_pair") + "/large-input", f"{desc}: {dup} pairs reported more than once", rp)
    missing = [k for k in want if k not in got]
    spurious = [k for k in got if k not in want]
    differs = [k for k in want if k in got and got[k] != want[k]]
    for name, lst in (("missing_pair", missing), ("spurious_pair", spurious), ("entry_differs", differs)):
        if lst:
            k = lst[0]
            ctx.violation(classify(inp, name) + "/large-input",
                          f"{desc}: {len(lst)} x {name}, e.g. positions {k} (copies of sequences {idx1[k[-1] - 1] + 1 if not inp['two'] else '?'}): "
                          f"got {got.get(k)} want {want.get(k)}", rp)


def affix_lift(ctx, s, classify, target):
    """Sequences far longer than the session's (implementation thresholds on the LENGTH: 32 / 40 / 64 / 128 letters, narrow integer
    types for distances). s is a session TraceNN has just accepted. Every sequence is wrapped into one common prefix and one common
    suffix - a common affix changes neither the Levenshtein nor the Hamming distance of a pair (it is matched letter by letter in an
    optimal alignment), so the accepted triplets ARE the answer for the long sequences, whose lengths now lie on both sides of
    `target`. A few unrelated fillers of 200 - 320 letters are appended: their lengths differ from everything else by more than
    max_edits, so they are neighbours of nothing, and their distances to the others exceed 127."""
    inp = s["inp"]
    join = next(e for e in s["events"] if e["op"] == "Join")
    letters, api = s["letters"], (s["api"] or None)
    nl = len(letters)
    lens = sorted(len(x) for x in inp["seqs"])
    pad = max(4, target - lens[len(lens) // 2])
    pre = [ctx.rng.randrange(nl) for _ in range(pad // 2)]
    suf = [ctx.rng.randrange(nl) for _ in range(pad - pad // 2)]
    fill = [[ctx.rng.randrange(nl) for _ in range(L)] for L in (200, 260, 320)]
    binp = dict(inp)
    binp["seqs"] = [pre + list(x) + suf for x in inp["seqs"]] + fill
    if inp["two"]:
        binp["seqs2"] = [pre + list(x) + suf for x in inp["seqs2"]] + [f[::-1] + [0] * 17 for f in fill]
    want = {(a, b_): d for a, b_, d in join["ret"]}
    desc = f"{describe(inp, letters, api)[:260]} with every sequence wrapped into a common prefix + suffix of {pad} letters (lengths around {target}) and 3 unrelated fillers"
    ctx.case(dict(kind="long-sequences", call=desc, target=target, expect_pairs=len(want)), nontrivial=len(want) > 0)
    ctx.extra.setdefault("long_sequence_inputs", []).append(dict(engine=inp["engine"], mode=inp["mode"], two=inp["two"], k=inp["k"], lengths_around=target, expected_pairs=len(want)))
    rp = dict(kind="long-sequences", session=s, pre=pre, suf=suf, fill=fill)
    try:
        got_l = nc.norm_triplets(nc.call_engine(binp, letters, api=api), inp["mode"])
    except Exception as e:      # noqa: BLE001
        ctx.violation(classify(inp, "raised") + "/long-sequences", f"{desc} raised {type(e).__name__}: {e}"[:500], rp)
        return
    got, dup = {}, 0
    for a, b_, d in got_l:
        dup += (a, b_) in got
        got[(a, b_)] = d
    if dup:
        ctx.violation(classify(inp, "repeated_pair") + "/long-sequences", f"{desc}: {dup} pairs reported more than once", rp)
    for name, lst in (("missing_pair", [k for k in want if k not in got]), ("spurious_pair", [k for k in got if k not in want]),
                      ("entry_differs", [k for k in want if k in got and got[k] != want[k]])):
        if lst:
            ctx.violation(classify(inp, name) + "/long-sequences", f"{desc}: {len(lst)} x {name}, e.g. positions {lst[0]}: got {got.get(lst[0])} want {want.get(lst[0])}", rp)


def inp_ok_for_huge(s):
    i = s["inp"]
    return i["engine"] in ("symdel", "kd") and i["mode"] == "lev" and i["k"] == 1 and not i["two"] and i.get("comp", 1) == 1 and s["letters"] == AA


def filler(i):
    """the i-th of 3^10 pairwise distant strings of length 40: slot s holds letter 2s repeated 2d times and letter 2s+1 repeated
    2(2-d) times, d the s-th ternary digit of i. Two different fillers differ in some digit, so their letter counts differ by at
    least 4 in total; one edit changes the counts by at most 2 in total (the specification's CompositionLemma), hence their
    Levenshtein (and Hamming) distance is at least 2."""
    out = []
    for s_ in range(10):
        i, d = divmod(i, 3)
        out.append(AA[2 * s_] * (2 * d) + AA[2 * s_ + 1] * (2 * (2 - d)))
    return "".join(out)


def huge_sparse(ctx, s, classify, n_fill=50000):
    assert n_fill <= 3 ** 10, "filler(i) repeats beyond 3^10"
    """tens of thousands of positions (products of positions beyond 2^31): fillers that are neighbours of nothing at max_edits = 1,
    followed by the sequences of an ACCEPTED session; the exact answer is the accepted answer shifted by the number of fillers."""
    inp = s["inp"]
    join = next(e for e in s["events"] if e["op"] == "Join")
    letters, api = s["letters"], (s["api"] or None)
    strs = [nc.dec(x, letters) for x in inp["seqs"]]
    if any(len(x) > 30 for x in strs):
        return
    want = {(a + n_fill, b + n_fill): d for a, b, d in join["ret"]}
    import pyrepseq.nn as nn
    big = [filler(i) for i in range(n_fill)] + strs
    fn = {"nearest_neighbor": nn.nearest_neighbor, "symdel": nn.symdel, None: nn.symdel if inp["engine"] == "symdel" else nn.kdtree, "kdtree": nn.kdtree}[api]
    desc = f"{fn.__name__}({n_fill} pairwise distant fillers + {strs[:6]}.., max_edits=1)"
    ctx.case(dict(kind="huge", call=desc, positions=len(big), expect_pairs=len(want)), nontrivial=len(want) > 0)
    ctx.extra.setdefault("lifted_large_inputs", []).append(dict(engine=inp["engine"], mode=inp["mode"], two=False, k=1, positions=len(big), expected_pairs=len(want)))
    rp = dict(kind="huge", session=s, n_fill=n_fill)
    try:
        got_l = nc.norm_triplets(fn(big, max_edits=1), inp["mode"])
    except Exception as e:      # noqa: BLE001
        ctx.violation(classify(inp, "raised") + "/large-input", f"{desc} raised {type(e).__name__}: {e}"[:500], rp)
        return
    got = {(a, b): d for a, b, d in got_l}
    for name, lst in (("missing_pair", [k for k in want if k not in got]), ("spurious_pair", [k for k in got if k not in want]),
                      ("entry_differs", [k for k in want if k in got and got[k] != want[k]])):
        if lst:
            ctx.violation(classify(inp, name) + "/large-input", f"{desc}: {len(lst)} x {name}, e.g. positions {lst[0]}: got {got.get(lst[0])} want {want.get(lst[0])}", rp)


def judge_sessions(ctx, sessions, verdicts, classify=default_classify, lifted=None):
    lifted = (2 if ctx.quick else 10) if lifted is None else lifted
    budget = {}                                     # per engine and form: every engine of the check gets its large inputs
    for s in sessions:
        api, drift = nc.failed_api_clauses(verdicts[s["sid"]])
        ctx.traces += 1
        if (not getattr(ctx, "_huge_done", False) and not api and s.get("kind") == "plain" and inp_ok_for_huge(s) and 3 <= len(s["inp"]["seqs"]) <= 60
                and sum(1 for e in s["events"] if e["op"] == "Join" and not e["raised"]) == 1 and any(e["op"] == "Join" and e["ret"] for e in s["events"])):
            ctx._huge_done = True
            huge_sparse(ctx, s, classify, 50000 if ctx.quick else 59049)        # 3^10 = 59049 distinct fillers exist
        bkey = (s["inp"]["engine"], bool(s["inp"]["two"]))
        if (budget.get(bkey, lifted) > 0 and not api and s.get("kind") == "plain" and s["inp"]["mode"] in ("lev", "hamming") and 4 <= len(s["inp"]["seqs"]) <= 40
                and (s["inp"]["engine"] != "hash" or s["inp"]["k"] == 1) and not any(e["op"] == "Join" and e["raised"] for e in s["events"])
                and sum(1 for e in s["events"] if e["op"] == "Join") == 1 and (not s["inp"]["two"] or len(s["inp"]["seqs2"]) <= 40)):
            budget[bkey] = budget.get(bkey, lifted) - 1
            from . import lifted as lf
            lifted_big(ctx, s, classify, lf.boundary_size(budget[bkey] + ctx.seed + len(s["inp"]["seqs"])))
        akey = ("affix",) + bkey
        if (budget.get(akey, 1 if ctx.quick else 4) > 0 and not api and s.get("kind") == "plain" and s["inp"]["mode"] in ("lev", "hamming")
                and 3 <= len(s["inp"]["seqs"]) <= 60 and max(len(x) for x in s["inp"]["seqs"]) <= 30
                and (s["inp"]["engine"] != "hash" or s["inp"]["k"] == 1) and s["inp"]["k"] <= 2
                and not any(e["op"] == "Join" and e["raised"] for e in s["events"]) and sum(1 for e in s["events"] if e["op"] == "Join") == 1
                and any(e["op"] == "Join" and e["ret"] for e in s["events"])):
            budget[akey] = budget.get(akey, 1 if ctx.quick else 4) - 1
            for target in (40, 64, 128, 32):
                affix_lift(ctx, s, classify, target)
        for l, op, clause in api:
            ev = s["events"][l - 1]
            ctx.violation(classify(s["inp"], clause),
                          f"{describe(s['inp'], s['letters'], s['api'])[:400]} event {op} clause {clause} {ev.get('exc', '')}",
                          dict(kind="session", session=s, verdict=verdicts[s["sid"]]))
        if drift:
            ctx.note(f"session {s['sid']}: drift {drift[:3]}")


def count_sessions(ctx, sessions):
    for s in sessions:
        j = next(e for e in s["events"] if e["op"] == "Join")
        inp = s["inp"]
        ctx.case(dict(kind="session", api=s["api"], engine=inp["engine"], mode=inp["mode"], n=len(inp["seqs"]),
                      n2=len(inp["seqs2"]), k=inp["k"], first=[nc.dec(x, s["letters"]) for x in inp["seqs"][:5]],
                      pairs=len(j["ret"])),
                 nontrivial=len(j["ret"]) > 0)


def corrupted_controls(ctx, sessions, trace_letters=None):
    """Anti-vacuity: corrupt one recorded field per session copy; the validator must reject each."""
    bad = []
    sid = 900000
    for s in sessions:
        j = next((e for e in s["events"] if e["op"] == "Join"), None)
        if not j or not j["ret"] or j["raised"]:
            continue
        kinds = ["drop", "dist", "dup"] + ([] if s["inp"]["two"] else ["self"]) + (["swap"] if s["inp"]["two"] else [])
        for kind in kinds:
            c = copy.deepcopy(s)
            cj = next(e for e in c["events"] if e["op"] == "Join")
            if kind == "drop":
                cj["ret"] = cj["ret"][1:]
                want = {"missing_pair", "missing_pair_equal_positions"}
            elif kind == "dist":
                cj["ret"][0][2] += 1
                want = {"wrong_distance"}
            elif kind == "dup":
                cj["ret"].append(list(cj["ret"][0]))
                want = {"repeated"}
            elif kind == "swap":
                t = next((t for t in cj["ret"] if t[0] != t[1]), None)
                if t is None:
                    continue
                t[0], t[1] = t[1], t[0]
                want = {"missing_pair", "spurious_pair", "wrong_distance"}
            else:
                cj["ret"].append([cj["ret"][0][0], cj["ret"][0][0], 0])
                want = {"self_pair"}
            sid += 1
            c["sid"] = sid
            c["events"] = [e for e in c["events"] if e["op"] not in ("Output", "NewLookup")][:3]
            bad.append((c, want, kind))
        if len(bad) >= 8:
            break
    if not bad:
        return
    verd = nc.validate_sessions(ctx, [b for b, _, _ in bad], invariants=("Exact",), count=False, letters=trace_letters)
    for c, want, kind in bad:
        api, _ = nc.failed_api_clauses(verd[c["sid"]])
        ok = any(cl in want for _, _, cl in api)
        ctx.negative.append(dict(kind="corrupted_trace", corruption=kind, rejected=ok))
        if not ok:
            raise MachineryFailure(f"corrupted trace ({kind}) was accepted by the validator")


def replay_doc(prop, doc):
    """Re-run one recorded violation against the current tree (./check <id> --replay file)."""
    from .core import Ctx
    ctx = Ctx(prop, "quick", 0)
    r = doc["replay"]
    if r["kind"] == "replay":
        bad, _ = nc.compare_case(r["doc"], letters=r["letters"], api=r["api"])
        print("mismatches:", bad)
        return 1 if bad else 0
    if r["kind"] == "session":
        s = r["session"]
        s2 = nc.rebuild_session(s)
        v = nc.validate_sessions(ctx, [s2], count=False, letters=s.get("trace_letters"))
        api, _ = nc.failed_api_clauses(v[s2["sid"]])
        print("failed clauses:", api)
        return 1 if api else 0
    print("unknown replay kind", r.get("kind"))
    return 2
