"""Thin, careful runner around TLC (tla2tools 1.8).

* starts the JVM with a small heap and few GC threads (first touch of guest memory is slow
  in this sandbox: the default 1/4-of-RAM heap costs minutes);
* every run gets its own scratch directory (removed afterwards) for the TLC metadir;
* parses the number of generated / distinct states, the lines printed with
  PrintT(ToJson(..)) (one JSON document per line), invariant violations and errors;
* never interprets a TLC *failure to run* as a property verdict: `TlcError` is a
  machinery failure (exit 2 of the check).
"""
from __future__ import annotations

import json
import os
import re
import shutil
import subprocess
import tempfile
import time
from dataclasses import dataclass, field

JAR = "/opt/veriftools/tla/tla2tools.jar"
DEPS = "/opt/veriftools/tla/CommunityModules-deps.jar"
SPEC_DIR = os.path.join(os.path.dirname(os.path.dirname(os.path.dirname(os.path.abspath(__file__)))), "spec")


class TlcError(RuntimeError):
    """TLC could not be run to completion (parse error, crash, timeout)."""


@dataclass
class TlcResult:
    module: str
    cfg: str
    generated: int = 0
    distinct: int = 0
    depth: int = 0
    wall_s: float = 0.0
    ok: bool = True                 # no invariant / property violation, no error
    violated: list = field(default_factory=list)   # names of violated invariants/properties
    printed: list = field(default_factory=list)    # decoded JSON docs printed by the spec
    raw_tail: str = ""
    coverage: dict = field(default_factory=dict)   # action name -> (distinct, total)
    error_trace: str = ""

    def as_dict(self):
        return dict(module=self.module, cfg=self.cfg, states=self.distinct, transitions=self.generated,
                    depth=self.depth, wall_s=round(self.wall_s, 2), ok=self.ok, violated=self.violated,
                    coverage=self.coverage)


_RE_STATES = re.compile(r"^(\d+) states generated, (\d+) distinct states found")
_RE_DEPTH = re.compile(r"The depth of the complete state graph search is (\d+)")
_RE_INV = re.compile(r"Invariant (\S+) is violated")
_RE_PROP = re.compile(r"(?:Action property|Temporal property|property) (\S+) (?:is|was) violated", re.I)
_RE_COV = re.compile(r"^<(\w+) line \d+, col \d+ to line \d+, col \d+ of module (\w+)>: (\d+):(\d+)")


def _java_cmd(workers: int, heap: str, props: dict | None = None):
    gc = ["-XX:+UseSerialGC"] if workers == 1 else ["-XX:+UseParallelGC", "-XX:ParallelGCThreads=4"]
    cmd = ["java", f"-Xmx{heap}", "-Xss16m"] + gc
    for k, v in (props or {}).items():
        cmd.append(f"-D{k}={v}")
    cmd += ["-cp", f"{JAR}:{DEPS}", "tlc2.TLC"]
    return cmd


def parse_printed(line: str):
    """A PrintT(ToJson(x)) line is a TLA+ string literal holding JSON."""
    line = line.strip()
    if len(line) >= 2 and line[0] == '"' and line[-1] == '"':
        try:
            inner = json.loads(line)
        except Exception:
            # TLA+ string escapes are a subset of JSON's; fall back to manual unescape
            inner = line[1:-1].replace('\\"', '"').replace("\\\\", "\\")
        try:
            return json.loads(inner)
        except Exception:
            return None
    return None


def run(module: str, cfg: str | None = None, *, workers: int = 8, heap: str = "2g", timeout: int = 900,
        env: dict | None = None, simulate: str | None = None, depth: int | None = None,
        seed: int | None = None, coverage: bool = False, deadlock: bool = False,
        spec_dir: str = SPEC_DIR, extra: list | None = None, keep_stdout: bool = False,
        dfs: bool = False) -> TlcResult:
    """Run TLC on spec_dir/module.tla with spec_dir/cfg (default module.cfg)."""
    cfg = cfg or (module + ".cfg")
    cfg_path = cfg if os.path.isabs(cfg) else os.path.join(spec_dir, cfg)
    scratch = tempfile.mkdtemp(prefix="pvtlc_")
    props = {"java.io.tmpdir": scratch}           # TLC unpacks its standard modules into a temp directory per run: keep it in the scratch
    if dfs:
        props["tlc2.tool.queue.IStateQueue"] = "StateDeque"
    cmd = _java_cmd(workers, heap, props) + ["-workers", str(workers), "-metadir", os.path.join(scratch, "meta"),
                                             "-noGenerateSpecTE", "-fpmem", "0.05", "-config", cfg_path]
    if not deadlock:
        cmd.append("-deadlock")          # -deadlock DISABLES deadlock checking
    if coverage:
        cmd += ["-coverage", "1"]
    if simulate:
        cmd += ["-simulate", simulate]
    if depth is not None:
        cmd += ["-depth", str(depth)]
    if seed is not None:
        cmd += ["-seed", str(seed)]
    cmd += list(extra or [])
    cmd.append(os.path.join(spec_dir, module + ".tla"))
    e = dict(os.environ)
    e.update({k: str(v) for k, v in (env or {}).items()})
    t0 = time.time()
    try:
        p = subprocess.run(cmd, cwd=spec_dir, env=e, stdout=subprocess.PIPE, stderr=subprocess.STDOUT,
                           timeout=timeout, text=True, errors="replace")
    except subprocess.TimeoutExpired as ex:
        shutil.rmtree(scratch, ignore_errors=True)
        raise TlcError(f"TLC timeout after {timeout}s on {module}/{cfg}") from ex
    finally:
        pass
    shutil.rmtree(scratch, ignore_errors=True)
    # TLC drops states/ directories next to the spec in some modes
    for d in ("states",):
        dd = os.path.join(spec_dir, d)
        if os.path.isdir(dd):
            shutil.rmtree(dd, ignore_errors=True)
    out = p.stdout
    res = TlcResult(module=module, cfg=os.path.basename(cfg_path), wall_s=time.time() - t0)
    lines = out.splitlines()
    in_trace = False
    for ln in lines:
        m = _RE_STATES.match(ln)
        if m:
            res.generated, res.distinct = int(m.group(1)), int(m.group(2))
            continue
        m = _RE_DEPTH.search(ln)
        if m:
            res.depth = int(m.group(1))
            continue
        m = _RE_INV.search(ln)
        if m:
            res.ok = False
            res.violated.append(m.group(1))
            continue
        m = _RE_PROP.search(ln)
        if m:
            res.ok = False
            res.violated.append(m.group(1))
            continue
        m = _RE_COV.match(ln)
        if m:
            res.coverage[m.group(1)] = [int(m.group(3)), int(m.group(4))]
            continue
        if ln.startswith('"'):
            doc = parse_printed(ln)
            if doc is not None:
                res.printed.append(doc)
    res.raw_tail = "\n".join(lines[-60:])
    if keep_stdout:
        res.stdout = out
    hard_error = False
    if "Error:" in out and not res.violated:
        hard_error = True
    if "Finished in" not in out and not simulate:
        hard_error = hard_error or not res.violated
    if res.violated:
        idx = out.find("Error:")
        res.error_trace = out[idx: idx + 6000]
    if "Postcondition" in out and "violated" in out and "Postcondition" not in " ".join(res.violated):
        res.ok = False
        res.violated.append("POSTCONDITION")
        hard_error = False
    if hard_error:
        raise TlcError(f"TLC failed on {module}/{os.path.basename(cfg_path)} (rc={p.returncode}):\n" + "\n".join(lines[-80:]))
    return res


def sany(module: str, spec_dir: str = SPEC_DIR) -> bool:
    cmd = ["java", "-Xmx512m", "-XX:+UseSerialGC", "-cp", f"{JAR}:{DEPS}", "tla2sany.SANY", os.path.join(spec_dir, module + ".tla")]
    p = subprocess.run(cmd, cwd=spec_dir, stdout=subprocess.PIPE, stderr=subprocess.STDOUT, text=True)
    ok = p.returncode == 0 and "Semantic errors" not in p.stdout and "Parse Error" not in p.stdout and "Fatal" not in p.stdout
    if not ok:
        print(p.stdout[-3000:])
    return ok
