"""C04 - hash_based and kdtree return the same exact neighbour set as the default search."""
from __future__ import annotations

from .. import nncommon as nc
from .. import nnprops as npx
from ..nnprops import ModelRun

INVS = npx.BASE_INVS + ("CompositionLemma", "BallExact")
COMPS = [1, 2, 3, 7, 20, 25]


def models(quick):
    if quick:
        return [ModelRun("C04_acd", letters=[0, 1, 2], maxlen=3, maxn=2, ks=[1, 2], engines=["hash", "kd"],
                         comps=[1, 2, 3, 20], invariants=INVS),
                # the default search on the same inputs: the three engines must be interchangeable
                ModelRun("C04_default", letters=[0, 1, 2], maxlen=3, maxn=2, ks=[1, 2], engines=["symdel"], invariants=INVS),
                ModelRun("C04_hiy_n3", letters=[6, 7, 19], maxlen=2, maxn=3, ks=[1, 3], engines=["kd"],
                         comps=[1, 7, 25], invariants=INVS)]
    # (hash_based enumerates the 20-letter edit ball on the real code: radius 3 costs seconds per query, so k <= 2 there)
    return [ModelRun("C04_acd", letters=[0, 1, 2], maxlen=3, maxn=2, ks=[1, 2, 3], engines=["kd"], comps=COMPS, invariants=INVS),
            ModelRun("C04_acd_hash", letters=[0, 1, 2], maxlen=3, maxn=2, ks=[1, 2], engines=["hash"], invariants=INVS),
            ModelRun("C04_default", letters=[0, 1, 2], maxlen=3, maxn=2, ks=[1, 2, 3], engines=["symdel"], invariants=INVS),
            ModelRun("C04_hash_k3", letters=[0, 1], maxlen=2, maxn=2, ks=[3], engines=["hash"], invariants=INVS),
            ModelRun("C04_hiy", letters=[6, 7, 19], maxlen=3, maxn=2, ks=[1, 2, 3, 4], engines=["kd"],
                     comps=COMPS, invariants=INVS),
            ModelRun("C04_ac_n3", letters=[0, 1], maxlen=3, maxn=3, ks=[1, 2], engines=["hash", "kd"],
                     comps=[1, 2], invariants=INVS),
            ModelRun("C04_ac_l4", letters=[0, 2], maxlen=4, maxn=2, ks=[1, 2, 3], engines=["kd"], comps=[1, 2, 3], invariants=INVS),
            ModelRun("C04_ac_l4h", letters=[0, 2], maxlen=4, maxn=2, ks=[1, 2], engines=["hash"], invariants=INVS)]


def run(ctx):
    ctx.rule = ("spec->code: every terminal behaviour of the TLC model of hash_based (edit-ball enumeration + dictionary probe) "
                "and kdtree (composition vectors, ball query, exact filter) for all lists of strings over 3-letter sub-alphabets "
                "that straddle the compression bins is executed on the real functions; code->spec: recorded sessions on random "
                "repertoires (kdtree any compression, hash_based on a sub-alphabet) and radius-boundary pairs x^k / y^k validated "
                "by TraceNN.tla. Non-trivial = at least one neighbour pair.")
    ctx.assumptions = ["Strings.tla reference distance", "hash_based traces on a 6-letter sub-alphabet (ball enumerable in TLC)",
                       "float radius sqrt(2)*k is outside TLC: exercised by boundary sessions only"]
    for mr in models(ctx.quick):
        res = npx.run_model(ctx, mr, coverage=not ctx.quick)
        thin = (lambda inp: 4 if (inp["engine"] == "hash" and inp["k"] >= 2) else 1) if ctx.quick else \
               (lambda inp: 8 if (inp["engine"] == "hash" and inp["k"] >= 3) else (2 if inp["engine"] == "hash" and inp["k"] == 2 else 1))
        npx.replay_emitted(ctx, res, [nc.AA], thin=thin, budget=None if ctx.quick else 60000)
    ctx.exhaustive = True
    sessions, sid = [], 0
    sub = "ACDHIY"
    codes = sorted(nc.AA.index(c) for c in sub)
    # radius boundary: k same-letter substitutions move the composition vector by exactly sqrt(2)*k
    for k in (range(1, 21) if not ctx.quick else (1, 2, 3, 5, 7, 10, 13, 17, 20)):
        for (a, b, comp) in (("A", "C", 1), ("A", "D", 2), ("H", "Y", 7)):
            sid += 1
            seqs = [a * k, b * k, a * (k - 1) + b, a * k + b]
            sessions.append(nc.build_session(sid, nc.make_inp("kd", "lev", k, seqs, comp=comp), with_output=False))
    # long sequences: a letter occurring 127 / 128 (and 255 / 256) times - the widths of narrow integer types in a composition vector
    for (a, cnt) in ((("A", 127),) if ctx.quick else (("A", 127), ("Y", 255), ("C", 128))):
        sid += 1
        seqs = [a * cnt + "D", a * (cnt + 1)] if ctx.quick else [a * cnt + "CDE", a * (cnt + 1) + "DE", a * (cnt - 1) + "CCDE"]
        sessions.append(nc.build_session(sid, nc.make_inp("kd", "lev", 1 if ctx.quick else 2, seqs, comp=1), with_output=False))
    nses = 12 if ctx.quick else 120
    for r in range(nses):
        sid += 1
        if r % 3 == 2:
            k = ctx.rng.choice([1, 1, 2])
            seqs = nc.repertoire(ctx.rng, ctx.rng.randint(10, 22), letters=sub, minlen=3, maxlen=9 if k == 1 else 5, maxmut=k + 1)
            inp = nc.make_inp("hash", "lev", k, seqs)
        else:
            k = ctx.rng.choice([1, 2, 2, 3] if ctx.quick else [1, 2, 3, 4])
            seqs = nc.repertoire(ctx.rng, ctx.rng.randint(16, 40 if ctx.quick else 70), maxmut=k + 1, maxlen=15)
            if r % 6 == 1:
                # one length only, relatives by a deletion here and an insertion there: Levenshtein 2 with many mismatching positions
                k = max(k, 2)
                base = "".join(ctx.rng.choice(nc.AA) for _ in range(ctx.rng.randint(7, 11)))
                seqs = [base]
                for _ in range(ctx.rng.randint(8, 18)):
                    x = ctx.rng.choice(seqs)
                    i, j = ctx.rng.randrange(len(x)), ctx.rng.randrange(len(x))
                    y = x[:i] + x[i + 1:]
                    seqs.append(y[:j] + ctx.rng.choice(nc.AA) + y[j:])
            inp = nc.make_inp("kd", "lev", k, seqs, comp=ctx.rng.choice(COMPS))
        sessions.append(nc.build_session(sid, inp))
    npx.count_sessions(ctx, sessions)
    verdicts = nc.validate_sessions(ctx, sessions, letters=codes, invariants=("Exact", "NoRepeat", "NoSelf", "CompositionLemma"))
    npx.judge_sessions(ctx, sessions, verdicts)
    npx.corrupted_controls(ctx, sessions[-6:], trace_letters=codes)
    # spec mutant: a ball radius of 2k (instead of 2k^2) loses neighbours for k >= 2
    npx.run_model(ctx, ModelRun("NEG_C04_radius", letters=[0, 1, 2], maxlen=3, maxn=2, ks=[2], engines=["kd"], comps=[1],
                                asfound=["mut_kd_radius"], invariants=("Exact", "CompositionLemma")), workers=4, expect_violation=True)


def replay(doc):
    return npx.replay_doc("C04", doc)
