"""C07 - Hamming mode returns exactly the equal-length pairs within max_edits mismatches."""
from __future__ import annotations

from .. import nncommon as nc
from .. import nnprops as npx
from ..nnprops import ModelRun

INVS = npx.BASE_INVS


def classify(inp, clause):
    mixed = len({len(s) for s in inp["seqs"]}) > 1
    return f"{inp['engine']}/hamming/{'two' if inp['two'] else 'self'}/{'mixed-length' if mixed else 'equal-length'}/{clause}"


def models(quick):
    eng = ["symdel", "hash", "kd"]
    if quick:
        return [ModelRun("C07_n3", letters=[0, 1], maxlen=2, maxn=3, ks=[1, 2], engines=eng, modes=["hamming"], comps=[1, 2], invariants=INVS),
                ModelRun("C07_l3", letters=[0, 1], maxlen=3, maxn=2, ks=[1, 2, 3], engines=eng, modes=["hamming"], comps=[1], invariants=INVS),
                ModelRun("C07_two", letters=[0, 1], maxlen=2, maxn=2, maxn2=2, ks=[1, 2], engines=["symdel", "hash"], modes=["hamming"], invariants=("TypeOK", "Exact", "NoRepeat", "DenseExact"))]
    return [ModelRun("C07_n3", letters=[0, 1], maxlen=3, maxn=3, ks=[1, 2], engines=eng, modes=["hamming"], comps=[1, 2], invariants=INVS),
            ModelRun("C07_n4", letters=[0, 1], maxlen=2, maxn=4, ks=[1, 2], engines=eng, modes=["hamming"], comps=[1], invariants=INVS),
            ModelRun("C07_a3", letters=[0, 1, 2], maxlen=3, maxn=2, ks=[1, 2, 3], engines=eng, modes=["hamming"], comps=[1, 3], invariants=INVS),
            ModelRun("C07_two", letters=[0, 1], maxlen=3, maxn=2, maxn2=2, ks=[1, 2], engines=["symdel", "hash"], modes=["hamming"], invariants=("TypeOK", "Exact", "NoRepeat", "DenseExact"))]


def run(ctx):
    ctx.rule = ("spec->code: every terminal behaviour of the TLC model in Hamming mode (symdel incl. two-collection form, hash_based "
                "with the substitution-only ball, kdtree with per-length buckets keeping original positions) over all lists with "
                "every interleaving of lengths is executed on the real functions; code->spec: mixed-length repertoires validated by "
                "TraceNN.tla. Non-trivial = at least one neighbour pair.")
    ctx.assumptions = ["Strings.tla HamInf (infinite for unequal lengths) is the oracle"]
    for mr in models(ctx.quick):
        res = npx.run_model(ctx, mr, coverage=not ctx.quick)
        alph = [nc.AA] if len(mr.kw["letters"]) == 3 else ["AC", "WY"]
        npx.replay_emitted(ctx, res, [nc.AA], classify=classify, budget=None if ctx.quick else 60000)
    ctx.exhaustive = True
    sessions, sid = [], 0
    sub = "ACDHIY"
    codes = sorted(nc.AA.index(c) for c in sub)
    nses = 12 if ctx.quick else 120
    for r in range(nses):
        sid += 1
        eng = ("symdel", "kd", "hash", "symdel2")[r % 4]
        k = ctx.rng.choice([1, 2, 2, 3])
        if eng == "hash":
            k = min(k, 2)
            seqs = []
            for L in ctx.rng.sample(range(3, 9), 3):
                seqs += nc.repertoire(ctx.rng, ctx.rng.randint(4, 8), letters=sub, minlen=L, maxlen=L, maxmut=k + 1, same_length=True, families=2)
        else:
            seqs = []
            for L in ctx.rng.sample(range(5, 16), ctx.rng.randint(2, 4)):
                seqs += nc.repertoire(ctx.rng, ctx.rng.randint(5, 14), minlen=L, maxlen=L, maxmut=k + 1, same_length=True, families=2)
        if eng == "kd" and r % 8 == 1:
            # one large length bucket (well beyond a tree leaf) at max_edits = 1: every one-substitution pair lies exactly on the
            # surface of the search ball, and the bucket's tree has many nodes
            k = 1
            seqs = nc.repertoire(ctx.rng, 120, letters=sub, minlen=9, maxlen=9, maxmut=2, same_length=True, families=6)
            seqs += nc.repertoire(ctx.rng, 15, letters=sub, minlen=7, maxlen=7, maxmut=2, same_length=True, families=2)
        ctx.rng.shuffle(seqs)
        if eng == "symdel2":
            q = [ctx.rng.choice(seqs) for _ in range(6)] + [nc.mutate(ctx.rng, ctx.rng.choice(seqs), 1) for _ in range(4)]
            inp = nc.make_inp("symdel", "hamming", k, seqs, seqs2=q)
        else:
            inp = nc.make_inp(eng, "hamming", k, seqs, comp=ctx.rng.choice([1, 2, 5]) if eng == "kd" else 1)
        sessions.append(nc.build_session(sid, inp, api=("nearest_neighbor", "symdel")[sid % 2] if inp["engine"] == "symdel" else None))
    npx.count_sessions(ctx, sessions)
    verdicts = nc.validate_sessions(ctx, sessions, letters=codes)
    npx.judge_sessions(ctx, sessions, verdicts, classify=classify)
    npx.corrupted_controls(ctx, sessions[:6], trace_letters=codes)
    # as-found model of kdtree (bucket-local positions) must violate Exact
    npx.run_model(ctx, ModelRun("NEG_C07_bucket_local", letters=[0, 1], maxlen=2, maxn=3, ks=[1], engines=["kd"], modes=["hamming"],
                                asfound=["kd_bucket_local"], invariants=("Exact",)), workers=4, expect_violation=True)


def replay(doc):
    return npx.replay_doc("C07", doc)
