"""C13 - grouped, conditional and entropy statistics are compositions of pc and pcDelta."""
from __future__ import annotations

import math
import os
import shutil
import tempfile

import numpy as np

from .. import estim

INVS = ("ConditionalIsWeightedMean", "SingleGroup", "InUnit", "CrossSymmetric", "CrossDiagonal")
LET = "AC"


def cfg_text(fns, maxlen=1, maxrows=3, keys=(1, 2), v2s="V1", weights=(1, 2), edges="E1", mutations=(), invs=INVS, emit=True, mingroups=1):
    t = "SPECIFICATION Spec\nCONSTANTS\n  Letters = {0, 1}\n"
    t += f"  MaxLen = {maxlen}\n  MaxRows = {maxrows}\n  Keys = {{{', '.join(map(str, keys))}}}\n  V2s <- {v2s}\n"
    t += f"  WeightVals = {{{', '.join(map(str, weights))}}}\n  EdgeSets <- {edges}\n"
    t += f"  MinGroups = {mingroups}\n"
    t += "  Fns = {" + ", ".join(f'"{k}"' for k in fns) + "}\n"
    t += "  Mutations = {" + ", ".join(f'"{k}"' for k in mutations) + "}\n"
    for i in invs:
        t += f"INVARIANT {i}\n"
    if emit:
        t += "INVARIANT EmitCase\n"
    return t


def run_cfg(ctx, name, text, expect_violation=None, workers=16):
    d = tempfile.mkdtemp(prefix="pvcfg_")
    try:
        p = os.path.join(d, name + ".cfg")
        with open(p, "w") as f:
            f.write(text)
        return ctx.mc("MCGrouped", p, workers=workers, expect_violation=expect_violation)
    finally:
        shutil.rmtree(d, ignore_errors=True)


def model_runs(quick):
    if quick:
        return [("cond", cfg_text(["pc_conditional"], maxrows=3, keys=(1, 2), v2s="V2")),
                ("cond3", cfg_text(["pc_conditional"], maxrows=3, keys=(11, 12, 21), v2s="V1", weights=(1, 3))),
                ("cross", cfg_text(["pc_grouped_cross", "renyi2"], maxrows=3, keys=(1, 2, 3), v2s="V1")),
                ("renyi4", cfg_text(["renyi2"], maxrows=4, keys=(1, 2), v2s="V1")),          # two groups of two members: group weights matter
                ("delta", cfg_text(["pcDelta_grouped", "pcDelta_grouped_cross"], maxrows=4, keys=(1, 2), edges="E3")),
                # many groups: every cell of the cross tables must belong to ITS pair of groups
                ("many", cfg_text(["pc_grouped_cross", "pcDelta_grouped_cross"], maxrows=4, keys=(1, 2, 3, 4), edges="E3", mingroups=4))]
    return [("cond", cfg_text(["pc_conditional"], maxrows=5, keys=(1, 2), v2s="V1", weights=(1, 2, 3))),
            ("cond3", cfg_text(["pc_conditional"], maxrows=4, keys=(11, 12, 21), v2s="V2", weights=(1, 3))),
            ("cross", cfg_text(["pc_grouped_cross", "renyi2"], maxrows=4, keys=(1, 2, 3), v2s="V2")),
            ("delta", cfg_text(["pcDelta_grouped", "pcDelta_grouped_cross"], maxrows=4, keys=(1, 2, 3), edges="E2")),
            ("delta5", cfg_text(["pcDelta_grouped", "pcDelta_grouped_cross"], maxrows=5, keys=(1, 2), edges="E3")),
            ("many", cfg_text(["pc_grouped_cross", "pcDelta_grouped_cross", "pcDelta_grouped", "pc_conditional"], maxrows=5, keys=(1, 2, 3, 4), edges="E1", mingroups=4)),
            ("many5", cfg_text(["pc_grouped_cross", "pcDelta_grouped_cross"], maxrows=5, keys=(1, 2, 3, 4, 5), edges="E1", mingroups=5))]


def S(codes):
    return "".join(LET[c] for c in codes)


def make_df(tab, variant):
    """variant 0: numeric key, 1: string key, 2: two grouping columns (key = 10*k1 + k2)"""
    import pandas as pd
    keys = [r[0] for r in tab]
    cols = {}
    two = max(keys) >= 10
    if two:
        cols["g1"] = [k // 10 for k in keys] if variant % 2 == 0 else [f"a{k // 10}" for k in keys]
        cols["g2"] = [k % 10 for k in keys]
        by = ["g1", "g2"]
    else:
        cols["g"] = keys if variant % 2 == 0 else [f"k{k}" for k in keys]
        by = "g" if variant % 4 < 2 else ["g"]
    cols["CDR3B"] = [S(r[1]) for r in tab]
    cols["extra"] = [S(r[2]) for r in tab]
    df = pd.DataFrame(cols)
    if variant % 3 == 1:
        df.index = [f"r{i}" for i in range(len(tab))][::-1]
    elif variant % 7 == 3:
        df.index = [i // 2 for i in range(len(tab))]            # repeated row labels (frames stacked with pd.concat)
    elif variant % 7 == 5:
        df.index = [0] * len(tab)
    return df, by, two


def val_ok(got, want):
    return estim.close(got, want)


def grid_ok(got, want):
    got = np.asarray(got, dtype=float)
    w = np.array(want, dtype=object)
    if got.shape != tuple(np.shape(np.array([[0 for _ in r] for r in want]))) and got.size != sum(len(r) for r in want):
        return False
    flat_g = got.flatten().tolist()
    flat_w = [x for r in want for x in r]
    return len(flat_g) == len(flat_w) and all(estim.close(g, x) for g, x in zip(flat_g, flat_w))


def replay_doc(ctx, doc, n, variant=None):
    import pyrepseq as prs
    import warnings
    warnings.filterwarnings("ignore")
    fn, tab, opt, kept, res = doc["fn"], doc["tab"], doc["opt"], doc["kept"], doc["res"]
    import zlib
    if variant is None:
        variant = zlib.crc32(str(n).encode()) % 84      # independent of the thinning pattern applied to n
    df, by, two = make_df(tab, variant)
    before = df.copy(deep=True)
    on = ["CDR3B", "extra"] if opt.get("joint") else "CDR3B"
    rp = dict(kind="replay", doc=doc, variant=variant, n=n)
    ngroups = len({r[0] for r in tab})
    desc = f"{fn}(rows={[[r[0], S(r[1]), S(r[2])] for r in tab]}, by={by}, on={on}, opt={ {k: v for k, v in opt.items() if k != 'joint'} })"

    def viol(what, detail):
        ctx.violation(f"{fn}/{what}", f"{desc}: {detail}"[:600], rp)
    try:
        if fn == "pc_conditional":
            w = opt["w"][:len(kept)] if opt["w"] else None
            ctx.case(dict(fn=fn, tab=tab, kept=len(kept), weights=w, joint=opt["joint"]), nontrivial=len(kept) > 1)
            got = prs.pc_conditional(df, by, on, group_weights=w)
            if not val_ok(got, res):
                viol("wrong_value", f"= {got!r} want {res}")
            if w is not None and zlib.crc32(str(n + 5).encode()) % 4 == 0:
                # the caller's own weight vector (float ndarray / int ndarray / tuple): left untouched and reusable
                import pandas as pd
                # ... and pandas Series of weights (array-like): taken by position, whatever their index labels say
                for warr in (np.array(w, dtype=float), np.array(w), tuple(w), pd.Series(w), pd.Series(w, index=[f"w{i}" for i in range(len(w))]),
                             pd.Series(w, index=list(range(len(w)))[::-1], dtype=float)):
                    keep = np.array(warr, dtype=float).copy()
                    first = prs.pc_conditional(df, by, on, group_weights=warr)
                    second = prs.pc_conditional(df, by, on, group_weights=warr)
                    if not np.array_equal(np.array(warr, dtype=float), keep):
                        viol("argument_mutated", f"group_weights {type(warr).__name__} {keep.tolist()} became {np.array(warr).tolist()}")
                        break
                    if not (val_ok(first, res) and val_ok(second, res)):
                        viol("wrong_value_on_reuse", f"first {first!r} second {second!r} want {res}")
                        break
        elif fn == "pc_grouped_cross":
            ctx.case(dict(fn=fn, tab=tab, joint=opt["joint"]), nontrivial=ngroups > 1)
            if ngroups < 2:
                return          # a single group has no pair of groups: not judged
            got = prs.pc_grouped_cross(df, by, on)
            if not grid_ok(got.values, res):
                viol("wrong_value", f"= {got.values.tolist()} want {res}")
        elif fn == "pcDelta_grouped":
            kw = dict(bins=0) if opt["edges"] == [] else dict(bins=list(opt["edges"]), normalize=opt["norm"])
            ctx.case(dict(fn=fn, tab=tab, **kw), nontrivial=ngroups > 1)
            if zlib.crc32(str(n + 13).encode()) % 2:
                kw["maxseqs"] = int(df.groupby(by).size().max())        # caps each group: nothing to discard
            got = prs.pcDelta_grouped(df, by, "CDR3B", **kw)
            if np.size(got) and len(got) == len(res):
                # rows are identified by their group label (the row order is not part of the property)
                def keyof(lbl):
                    parts = list(lbl) if isinstance(lbl, tuple) else [lbl]
                    digits = [int("".join(ch for ch in str(x) if ch.isdigit())) for x in parts]
                    return digits[0] * 10 + digits[1] if len(digits) == 2 else digits[0]
                order = [list(got.index).index(l) for l in sorted(got.index, key=keyof)]
                got = got.iloc[order]
            if not grid_ok(np.asarray(got.values if hasattr(got, "values") else got, dtype=float).reshape(len(res), -1) if np.size(got) else np.zeros((0, 0)), res):
                viol("wrong_value" + ("/bins=0" if opt["edges"] == [] else ""), f"= {np.asarray(got).tolist()} want {res}")
        elif fn == "pcDelta_grouped_cross":
            ctx.case(dict(fn=fn, tab=tab, edges=opt["edges"], norm=opt["norm"]), nontrivial=ngroups > 1)
            if ngroups < 2:
                return
            G = len(res)
            # every second behaviour: maxseqs = size of the largest group. It caps each COLLECTION handed to pcDelta (here: each group),
            # so nothing is discarded and the result is the one without maxseqs - although the table as a whole has more rows
            kwm = dict(maxseqs=int(df.groupby(by).size().max())) if zlib.crc32(str(n + 11).encode()) % 2 else {}
            if opt["edges"] == []:
                got = prs.pcDelta_grouped_cross(df, by, "CDR3B", bins=0, **kwm)
                want = [[res[i][j][0] for j in range(G)] for i in range(G)]
                if not grid_ok(got.values, want):
                    diag_only = grid_ok([[got.values[i][j] for j in range(G) if j != i] for i in range(G)],
                                        [[want[i][j] for j in range(G) if j != i] for i in range(G)])
                    viol("square/" + ("diagonal_wrong" if diag_only else "wrong_value"), f"{kwm} = {got.values.tolist()} want {want}")
                got = prs.pcDelta_grouped_cross(df, by, "CDR3B", condensed=True, bins=0, **kwm)
                wantc = [[res[i][j][0]] for i in range(G) for j in range(i + 1, G)]
                if not grid_ok(np.asarray(got.values, dtype=float).reshape(len(wantc), -1), wantc):
                    viol("condensed/wrong_value/bins=0", f"= {got.values.tolist()} want {wantc}")
            else:
                got = prs.pcDelta_grouped_cross(df, by, "CDR3B", condensed=True, bins=list(opt["edges"]), normalize=opt["norm"], **kwm)
                wantc = [res[i][j] for i in range(G) for j in range(i + 1, G)]
                if not grid_ok(np.asarray(got.values, dtype=float).reshape(len(wantc), -1), wantc):
                    viol("condensed/wrong_value", f"{kwm} = {got.values.tolist()} want {wantc}")
                # "... for each pair of groups THEIR two-collection pcDelta" with a metric that is not symmetric (insertions dearer than
                # deletions): the entry of (g, h) is pcDelta(group g, group h, ...), itself bound to the specification by C05
                from pyrepseq.metric import WeightedLevenshtein
                wl = WeightedLevenshtein(3, 1, 2)
                kw = dict(bins=list(opt["edges"]) + [9], normalize=opt["norm"], metric=wl)
                gotw = np.asarray(prs.pcDelta_grouped_cross(df, by, "CDR3B", condensed=True, **kw).values, dtype=float)
                parts = [list(g_["CDR3B"]) for _, g_ in df.groupby(by, sort=True)]
                wantw = [np.asarray(prs.pcDelta(parts[i], parts[j], **kw), dtype=float) for i in range(len(parts)) for j in range(i + 1, len(parts))]
                if gotw.reshape(len(wantw), -1).shape != np.asarray(wantw).shape or not np.allclose(gotw.reshape(len(wantw), -1), np.asarray(wantw), equal_nan=True):
                    viol("condensed/asymmetric_metric/not_the_pairwise_pcDelta", f"with WeightedLevenshtein(3,1,2): {gotw.tolist()} want {[w.tolist() for w in wantw]}")
        elif fn == "renyi2":
            base = (2.0, math.e, 10.0, 0.5, 0.1)[(n // 7) % 5]
            by_arg = by if opt["by"] else None
            ctx.case(dict(fn="renyi2_entropy", tab=tab, joint=opt["joint"], by=bool(opt["by"]), base=base), nontrivial=True)
            got = float(prs.renyi2_entropy(df, on, by=by_arg, base=base))
            if estim.is_nan_rat(res):
                ok = math.isnan(got)
            elif res[0] == 0:
                ok = math.isinf(got) and (got > 0) == (base > 1)        # -log_base(0): +inf for base > 1, -inf for base < 1
            else:
                ok = (not math.isnan(got)) and abs(base ** (-got) - res[0] / res[1]) < 1e-9
            if not ok:
                viol("wrong_value", f"renyi2_entropy(base={base}) = {got} want -log_base({res[0]}/{res[1]})")
            if opt["by"]:
                # group weights are forwarded: the entropy is -log_base of pc_conditional with the same weights (checked above against the model)
                ng = int(df.groupby(by).size().gt(1).sum())
                if ng >= 2:
                    w = [1.0 + 2.0 * ((n + j) % 3) for j in range(ng)]
                    pcw = float(prs.pc_conditional(df, by, on, group_weights=list(w)))
                    gotw = float(prs.renyi2_entropy(df, on, by=by_arg, base=base, group_weights=list(w)))
                    wantw = -math.log(pcw) / math.log(base) if pcw > 0 else None
                    if wantw is not None and not (abs(gotw - wantw) <= 1e-9 * max(1.0, abs(wantw))):
                        viol("group_weights_not_applied", f"renyi2_entropy(by, group_weights={w}, base={base}) = {gotw} want {wantw}")
        if not before.equals(df):
            viol("argument_mutated", "the caller's table was modified")
    except Exception as e:     # noqa: BLE001
        viol(f"raised:{type(e).__name__}" + ("/bins=0" if opt.get("edges") == [] else ""), f"raised {type(e).__name__}: {e}")


def std_entropy_part(ctx, n):
    """stdrenyi2_entropy = stdpc / (pc ln base): squared, against VarPcN / pc^2 evaluated by TLC (Estimators.tla)."""
    import pandas as pd
    import pyrepseq as prs
    sessions, tabs = [], {}
    for sid in range(1, n + 1):
        K = ctx.rng.randint(2, 4)
        counts = [ctx.rng.randint(1, 4 if sid % 3 else 60) for _ in range(K)]
        if sum(counts) < 4 or max(counts) < 2:
            counts[0] += 3
        sessions.append(dict(sid=sid, kind="bigvar", n=counts, m=[]))      # arbitrary precision: 32-bit rationals overflow from N ~ 14 on
        vals = [f"v{i}" for i, c in enumerate(counts) for _ in range(c)]
        ctx.rng.shuffle(vals)
        tabs[sid] = (counts, pd.DataFrame(dict(CDR3B=vals, extra=["x"] * len(vals))))
    out = estim.evaluate(ctx, sessions)
    for sid, (counts, df) in tabs.items():
        spec = out[sid]
        base = (2.0, math.e, 0.5, 10.0, 0.25)[sid % 5]
        feats = "CDR3B" if sid % 2 else ["CDR3B", "extra"]
        ctx.case(dict(fn="stdrenyi2_entropy", counts=counts, base=base, joint=isinstance(feats, list)), nontrivial=True)
        ctx.traces += 1
        try:
            got = float(prs.stdrenyi2_entropy(df, feats, base=base))
        except Exception as e:     # noqa: BLE001
            ctx.violation(f"stdrenyi2_entropy/raised:{type(e).__name__}", f"stdrenyi2_entropy(counts {counts}) raised {e}"[:300], dict(kind="std", counts=counts))
            continue
        pc = float(estim.big_fraction(spec["pc"]))
        var = float(estim.big_fraction(spec["var"]))
        if var <= 1e-15 or pc == 0:
            continue            # square root of a non-positive estimate: not judged (float noise / nan)
        want = math.sqrt(var) / (pc * math.log(base))
        if not (abs(got - want) <= 1e-8 * max(1.0, abs(want))):
            ctx.violation("stdrenyi2_entropy/wrong_value", f"stdrenyi2_entropy(counts {counts}, base={base}) = {got} want sqrt({var})/({pc} ln base) = {want}",
                          dict(kind="std", counts=counts))


def run(ctx):
    ctx.rule = ("Grouped.tla (FilterSingletons, GroupApply, Assemble over the reference pc / pcDelta of C02 / C05) is model-checked for all small tables "
                "with 1-2 grouping columns, unsorted keys, singleton groups, joint features and weights (ConditionalIsWeightedMean, SingleGroup, "
                "InUnit, CrossSymmetric, CrossDiagonal; mutants 'weights not squared' and 'singletons kept' rejected). Every terminal behaviour is "
                "executed on pc_conditional, pc_grouped_cross, pcDelta_grouped, pcDelta_grouped_cross (condensed; square for bins=0) and "
                "renyi2_entropy (numeric / string keys, 1-2 grouping columns, three bases); stdrenyi2_entropy is compared with VarPcN evaluated "
                "by TLC. Non-trivial = at least two groups.")
    ctx.assumptions = ["the logarithm itself is harness-side (base^(-H) compared with the spec's pc)", "tables with a single group are not judged for the cross-group functions",
                       "pcDelta_grouped_cross square form only for bins=0 (the statement's diagonal clause); edge-vector bins through the condensed form"]
    n = 0
    runs = model_runs(ctx.quick)
    results = ctx.mc_batch("MCGrouped", [(name, text, None) for name, text in runs], parallel=5, workers=4)
    for name, text in runs:
        res = results[name]
        docs = []
        for doc in ctx.sample([d for d in res.printed if "fn" in d], 25000):
            n += 1
            if ctx.quick and n % {"cond": 2, "cond3": 6, "cross": 2, "delta": 4, "many": 6, "renyi4": 2}.get(name, 3):
                continue
            docs.append((n, doc))
        ctx.parallel(docs, _replay_item)
    ctx.exhaustive = True
    std_entropy_part(ctx, 30 if ctx.quick else 300)
    run_cfg(ctx, "NEG_w", cfg_text(["pc_conditional"], maxrows=4, keys=(1, 2), weights=(1, 2), mutations=["weights_not_squared"], invs=("ConditionalIsWeightedMean",), emit=False),
            expect_violation=["ConditionalIsWeightedMean"], workers=4)
    run_cfg(ctx, "NEG_s", cfg_text(["pc_conditional"], maxrows=3, keys=(1, 2), mutations=["keep_singletons"], invs=("ConditionalIsWeightedMean", "SingleGroup", "InUnit"), emit=False),
            expect_violation=["ConditionalIsWeightedMean", "SingleGroup", "InUnit"], workers=4)


def _replay_item(ctx, i, item):
    replay_doc(ctx, item[1], item[0])
    ctx.traces += 1


def replay(doc):
    from ..core import Ctx
    ctx = Ctx("C13", "quick", 0)
    ctx._known = []
    r = doc["replay"]
    if r.get("kind") == "replay":
        replay_doc(ctx, r["doc"], r.get("n", 0), variant=r.get("variant", 0))
        return 1 if ctx.violations else 0
    print("re-run ./check C13")
    return 1
