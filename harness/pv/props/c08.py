"""C08 - string metrics return true (weighted) edit distances in SciPy layout."""
from __future__ import annotations

import copy
import os
import shutil
import tempfile

import numpy as np

from .. import nncommon as nc
from .. import tracecommon as tcm
from ..core import MachineryFailure, mix


def cfg_text(kinds, letters=(0, 1), maxlen=2, maxm=2, maxmb=1, weights="W12", mutations=(), invs=(), emit=True):
    t = "SPECIFICATION Spec\nCONSTANTS\n"
    t += f"  Letters = {{{', '.join(map(str, letters))}}}\n  MaxLen = {maxlen}\n  MaxM = {maxm}\n  MaxMB = {maxmb}\n  Weights <- {weights}\n"
    t += "  Kinds = {" + ", ".join(f'"{k}"' for k in kinds) + "}\n"
    t += "  Mutations = {" + ", ".join(f'"{k}"' for k in mutations) + "}\n"
    for i in invs:
        t += f"INVARIANT {i}\n"
    if emit:
        t += "INVARIANT EmitCase\n"
    return t


def run_cfg(ctx, name, text, expect_violation=None, workers=16):
    d = tempfile.mkdtemp(prefix="pvcfg_")
    try:
        p = os.path.join(d, name + ".cfg")
        with open(p, "w") as f:
            f.write(text)
        return ctx.mc("MCMetrics", p, workers=workers, expect_violation=expect_violation)
    finally:
        shutil.rmtree(d, ignore_errors=True)


def scaled_metric(a, b, scale=1, w=(1, 1, 1), offset=0):
    """metric callable for the functional helpers; `scale` / `offset` must arrive through **kwargs forwarding. With an offset the
    callable is not zero on identical arguments (a negated similarity, a score): the helpers must call it for every pair."""
    from rapidfuzz.distance import Levenshtein as L
    return offset + scale * L.distance(a, b, weights=tuple(w))


def container(strs, kind):
    import pandas as pd
    if kind == "list":
        return list(strs)
    if kind == "ndarray":
        return np.array(list(strs), dtype=object)
    return pd.Series(list(strs), index=[7 * i + 2 for i in range(len(strs))], dtype=object)


_METRICS = {}


def replay_doc(ctx, doc, n, letters):
    import pyrepseq as prs
    from pyrepseq.metric import Levenshtein, WeightedLevenshtein
    X = [nc.dec(x, letters) for x in doc["X"]]
    Y = [nc.dec(y, letters) for y in doc["Y"]]
    w = doc["w"]
    rp = dict(kind="replay", doc=doc, letters=letters)
    cont = ("list", "ndarray", "series")[n % 3]
    key = (tuple(w), w == [1, 1, 1] and n % 2)
    if key not in _METRICS:           # the same metric object serves many calls
        _METRICS[key] = Levenshtein() if key[1] else WeightedLevenshtein(w[0], w[1], w[2])
    metric = _METRICS[key]
    name = type(metric).__name__ + (str(tuple(w)) if w != [1, 1, 1] else "")

    def viol(key, what):
        ctx.violation(key, what[:500], rp)
    try:
        if doc["kind"] == "cdist":
            ctx.case(dict(fn="calc_cdist_matrix/cdist", X=X, Y=Y, w=w, container=cont), nontrivial=w[0] != w[1])
            got = np.asarray(metric.calc_cdist_matrix(container(X, cont), container(Y, cont)))
            if got.shape != (len(X), len(Y)) or got.tolist() != doc["D"]:
                viol(f"{type(metric).__name__}/cdist/entry_wrong", f"{name}.calc_cdist_matrix({X}, {Y}) = {got.tolist()} want {doc['D']}")
            got = prs.cdist(container(X, cont), container(Y, cont), metric=scaled_metric, dtype=np.int64, scale=3, w=tuple(w), offset=1)
            if got.tolist() != [[3 * v + 1 for v in row] for row in doc["D"]]:
                viol("cdist/functional/entry_wrong", f"cdist({X}, {Y}, metric, scale=3, offset=1, w={w}) = {got.tolist()} want 3*{doc['D']}+1")
            if w == [1, 1, 1]:
                got = prs.cdist(X, Y)
                if got.tolist() != doc["D"]:
                    viol("cdist/default/entry_wrong", f"cdist({X}, {Y}) = {got.tolist()} want {doc['D']}")
            # default metric, keyword arguments forwarded to it (weights = (insertion, deletion, substitution))
            got = prs.cdist(X, Y, dtype=np.int64, weights=tuple(w))
            if got.tolist() != doc["D"]:
                viol("cdist/default_kwargs/entry_wrong", f"cdist({X}, {Y}, weights={tuple(w)}) = {got.tolist()} want {doc['D']}")
        else:
            ctx.case(dict(fn="calc_pdist_vector/pdist", X=X, w=w, container=cont), nontrivial=len(X) > 2 and w[0] != w[1])
            if doc["kind"] == "pdist":
                got = np.asarray(metric.calc_pdist_vector(container(X, cont)))
                if got.tolist() != doc["vec"]:
                    viol(f"{type(metric).__name__}/pdist/layout_or_entry_wrong", f"{name}.calc_pdist_vector({X}) = {got.tolist()} want {doc['vec']}")
            else:
                got = prs.pdist(container(X, cont), metric=scaled_metric, dtype=np.int64, scale=2, w=tuple(w), offset=5)
                if got.tolist() != [2 * v + 5 for v in doc["vec"]]:
                    viol("pdist/functional/layout_or_entry_wrong", f"pdist({X}, metric, scale=2, offset=5, w={w}) = {got.tolist()} want 2*{doc['vec']}+5")
                if w == [1, 1, 1]:
                    got = prs.pdist(X)
                    if got.tolist() != doc["vec"]:
                        viol("pdist/default/layout_or_entry_wrong", f"pdist({X}) = {got.tolist()} want {doc['vec']}")
                got = prs.pdist(X, dtype=np.int64, weights=tuple(w))
                if got.tolist() != doc["vec"]:
                    viol("pdist/default_kwargs/layout_or_entry_wrong", f"pdist({X}, weights={tuple(w)}) = {got.tolist()} want {doc['vec']}")
    except Exception as e:     # noqa: BLE001
        viol(f"{doc['kind']}/raised", f"{doc['kind']} case X={X} Y={Y} w={w} raised {type(e).__name__}: {e}")


def model_runs(quick):
    facts = ("CdistExact", "WLevFacts", "LevSym")
    if quick:
        return [("facts", cfg_text(["cdist"], maxlen=3, maxm=2, maxmb=1, weights="W12", invs=facts)),
                ("fewmany", cfg_text(["cdist"], maxlen=2, maxm=1, maxmb=2, weights="W12", invs=("CdistExact",))),
                ("vectors", cfg_text(["pdist", "loop"], maxlen=2, maxm=3, weights="W123", invs=("PdistLayout",))),
                ("layout", cfg_text(["layout"], maxm=12, invs=("CondBijection", "ClosedForms"), emit=False))]
    return [("facts", cfg_text(["cdist"], maxlen=3, maxm=2, maxmb=1, weights="W123", invs=facts)),
            ("fewmany", cfg_text(["cdist"], maxlen=2, maxm=2, maxmb=3, weights="W12", invs=("CdistExact",))),
            ("facts3", cfg_text(["cdist"], letters=(0, 1, 2), maxlen=2, maxm=2, maxmb=1, weights="W137", invs=facts)),
            ("vectors", cfg_text(["pdist", "loop"], maxlen=2, maxm=4, weights="W12", invs=("PdistLayout",))),
            ("vectors3", cfg_text(["pdist", "loop"], maxlen=3, maxm=3, weights="W12", invs=("PdistLayout",))),
            ("layout", cfg_text(["layout"], maxm=14, invs=("CondBijection", "ClosedForms"), emit=False))]


def make_sessions(ctx, n):
    from pyrepseq.metric import Levenshtein, WeightedLevenshtein
    import pyrepseq as prs
    out = []
    for sid in range(1, n + 1):
        kind = ("Matrix", "Vector", "Closed", "Closed")[sid % 4]
        w = ctx.rng.choice([[1, 1, 1], [1, 1, 1], [1, 2, 3], [3, 1, 2], [2, 5, 3], [3, 5, 7], [1, 1, 3]])
        metric = Levenshtein() if w == [1, 1, 1] and sid % 2 else WeightedLevenshtein(*w)
        ev = dict(op=kind, raised=False, w=w)
        strs = None
        try:
            if kind == "Closed":
                fam = ctx.rng.choice(["AnBm", "AnAm", "AnBmToBm"])
                nn_, mm = ctx.rng.randint(0, 400), ctx.rng.randint(0, 400)
                a, b = ctx.rng.sample(nc.AA + "xyz- ", 2)
                src = {"AnBm": a * nn_, "AnAm": a * nn_, "AnBmToBm": a * nn_ + b * mm}[fam]
                dst = {"AnBm": b * mm, "AnAm": a * mm, "AnBmToBm": b * mm}[fam]
                if sid % 3 == 0:
                    d = metric.calc_pdist_vector([src, dst])[0]
                else:
                    d = metric.calc_cdist_matrix([src, "Q"], ["Q", dst])[0][1]
                ev.update(fam=fam, n=nn_, m=mm, d=int(d) if float(d) == int(d) else -7)
            else:
                letters = ctx.rng.choice(["AC", "ACDE", nc.AA])
                X = ["".join(ctx.rng.choice(letters) for _ in range(ctx.rng.randint(0, 40))) for _ in range(ctx.rng.randint(2, 5))]
                if mix(sid) % 3 == 0:
                    # short and long strings interleaved, lengths around the machine-word sizes of bit-parallel implementations
                    X = ["".join(ctx.rng.choice(letters) for _ in range(ctx.rng.choice([3, 20, 63, 64, 65, 90, 129]))) for _ in range(ctx.rng.randint(3, 6))]
                    if not (any(len(x) > 64 for x in X) and any(len(x) <= 64 for x in X)):
                        X[0], X[-1] = X[0][:10] + "A" * 70, X[-1][:12]
                    if len(X[0]) <= 64:
                        X = X[::-1] if len(X[-1]) > 64 else [X[0] * 30] + X          # a long one first, short ones after it
                amap = {c: i for i, c in enumerate(nc.AA)}
                if kind == "Matrix":
                    Y = [nc.mutate(ctx.rng, ctx.rng.choice(X), ctx.rng.randint(0, 6), letters) for _ in range(ctx.rng.randint(1, 7))]      # few x many and many x few
                    D = np.asarray(metric.calc_cdist_matrix(X, Y)) if sid % 8 else prs.cdist(X, Y, metric=scaled_metric, dtype=np.int64, w=tuple(w))
                    ev.update(X=[nc.enc(x, amap) for x in X], Y=[nc.enc(y, amap) for y in Y], D=[[int(v) for v in row] for row in D.tolist()])
                    strs = dict(X=X, Y=Y)
                else:
                    v = np.asarray(metric.calc_pdist_vector(X)) if sid % 8 != 1 else prs.pdist(X, metric=scaled_metric, dtype=np.int64, w=tuple(w))
                    ev.update(X=[nc.enc(x, amap) for x in X], vec=[int(t) for t in v.tolist()])
                    strs = dict(X=X)
        except Exception as e:     # noqa: BLE001
            ev.update(raised=True, exc=f"{type(e).__name__}: {e}"[:200], X=[], Y=[], D=[], vec=[], fam="AnAm", n=0, m=0, d=0)
        out.append(dict(sid=sid, events=[ev], strs=strs))
    # closed-form cases ON the storage boundaries of the result: the shortest strings of every family whose distance just
    # passes 2^8 and 2^16 (enumerated, not drawn: with an insertion / deletion weight above the substitution weight the
    # distance passes the boundary while length x substitution weight is still below it)
    sid = n
    for w in ([1, 1, 1], [1, 2, 3], [3, 1, 2], [2, 5, 3], [3, 5, 7], [1, 1, 3], [3, 3, 1], [3, 2, 1]):
        ins, dele, sub = w
        for bound in (256, 65536):
            up = lambda c: -(-(bound + 1) // c)
            for fam, nn_, mm in (("AnAm", 0, up(ins)), ("AnAm", up(dele), 0), ("AnBmToBm", up(dele), 3), ("AnBm", up(min(sub, ins + dele)), up(min(sub, ins + dele))),
                                 ("AnBm", 1, up(ins)), ("AnBm", up(dele), 2)):
                sid += 1
                metric = Levenshtein() if w == [1, 1, 1] and sid % 2 else WeightedLevenshtein(*w)
                ev = dict(op="Closed", raised=False, w=w)
                a, b = "CW" if sid % 2 else "x-"
                src = {"AnBm": a * nn_, "AnAm": a * nn_, "AnBmToBm": a * nn_ + b * mm}[fam]
                dst = {"AnBm": b * mm, "AnAm": a * mm, "AnBmToBm": b * mm}[fam]
                try:
                    if sid % 3 == 0:
                        d = metric.calc_pdist_vector([src, dst])[0]
                    else:
                        d = metric.calc_cdist_matrix([src, "Q"], ["Q", dst])[0][1]
                    ev.update(fam=fam, n=nn_, m=mm, d=int(d) if float(d) == int(d) else -7)
                except Exception as e:     # noqa: BLE001
                    ev.update(raised=True, exc=f"{type(e).__name__}: {e}"[:200], X=[], Y=[], D=[], vec=[], fam="AnAm", n=0, m=0, d=0)
                out.append(dict(sid=sid, events=[ev], strs=None))
    return out


def lifted_big(ctx, s, r):
    """large collections made of copies of an ACCEPTED session's strings: the accepted distances, lifted"""
    from pyrepseq.metric import Levenshtein, WeightedLevenshtein
    import pyrepseq as prs
    from .. import lifted as lf
    ev, strs = s["events"][0], s["strs"]
    w = ev["w"]
    metric = Levenshtein() if w == [1, 1, 1] and r % 2 else WeightedLevenshtein(*w)
    X = strs["X"]
    rp = dict(kind="lifted", session={k: v for k, v in s.items()}, r=r)
    if ev["op"] == "Matrix":
        Y = strs["Y"]
        bx, by = [(lf.boundary_size(r), 90), (70, lf.boundary_size(r + 3)), (1025, 1025)][r % 3]
        ix, iy = lf.index_map(ctx.rng, len(X), bx), lf.index_map(ctx.rng, len(Y), by)
        want = lf.lift_matrix(ev["D"], ix, iy)
        desc = f"cdist of {bx} x {by} copies of {X} / {Y}, weights {w}"
        ctx.case(dict(kind="lifted", call=desc), nontrivial=True)
        calls = [("calc_cdist_matrix", lambda: metric.calc_cdist_matrix([X[i] for i in ix], [Y[j] for j in iy]))]
        if w == [1, 1, 1]:
            calls.append(("cdist/default", lambda: prs.cdist(np.array([X[i] for i in ix]), [Y[j] for j in iy], dtype=np.int64)))
        for name, fn in calls:
            try:
                got = np.asarray(fn(), dtype=float)
            except Exception as e:      # noqa: BLE001
                ctx.violation(f"{name}/large-input/raised", f"{name}: {desc} raised {type(e).__name__}: {e}"[:400], rp)
                continue
            if got.shape != want.shape or not np.array_equal(got, want):
                bad = np.argwhere(got != want)[:1].tolist() if got.shape == want.shape else "shape"
                ctx.violation(f"{name}/large-input/entry_wrong", f"{name}: {desc}: differs from the lifted accepted matrix at {bad}"[:400], rp)
    else:
        big = lf.boundary_size(r + 1)
        ix = lf.index_map(ctx.rng, len(X), big)
        want = lf.lift_condensed(lf.square_from_condensed(ev["vec"], len(X)), ix)
        desc = f"pdist of {big} copies of {X}, weights {w}"
        ctx.case(dict(kind="lifted", call=desc), nontrivial=True)
        calls = [("calc_pdist_vector", lambda: metric.calc_pdist_vector([X[i] for i in ix]))]
        if w == [1, 1, 1]:
            calls.append(("pdist/default", lambda: prs.pdist([X[i] for i in ix], dtype=np.int64)))
        for name, fn in calls:
            try:
                got = np.asarray(fn(), dtype=float)
            except Exception as e:      # noqa: BLE001
                ctx.violation(f"{name}/large-input/raised", f"{name}: {desc} raised {type(e).__name__}: {e}"[:400], rp)
                continue
            if got.shape != want.shape or not np.array_equal(got, want):
                ctx.violation(f"{name}/large-input/layout_or_entry_wrong", f"{name}: {desc}: differs from the lifted accepted vector"[:400], rp)


TRACE_CONSTS = "  Letters = {0}\n  MaxLen = 0\n  MaxM = 1\n  MaxMB = 1\n  Weights = {1}\n  Kinds = {\"cdist\"}\n  Mutations = {}"


def _replay_item(ctx, i, item):
    replay_doc(ctx, item[1], item[0], item[2])
    ctx.traces += 1


def run(ctx):
    ctx.rule = ("Metrics.tla: Cdist / SelfCdist+Squareform / LoopPdist machines over the reference weighted edit distance (fold DP); TLC checks "
                "CdistExact, PdistLayout (value from X[i] to X[j] at m*i + j - (i+2)(i+1)/2), CondBijection for m <= 12, the metric facts "
                "(identity, reversal swaps insertion/deletion, triangle inequality, = Levenshtein at unit weights) and the closed forms for "
                "a^n/b^m families for all small n, m. Every terminal behaviour is executed on Levenshtein, WeightedLevenshtein, pdist, cdist "
                "(callable metric with forwarded kwargs; list / ndarray / Series with index). Sessions with medium-length random strings "
                "(DP in TLC) and strings up to 400 letters (closed forms) are validated by TraceMetrics.tla. Non-trivial = asymmetric weights.")
    ctx.assumptions = ["long strings (<= 400) only through the closed-form families validated against the DP for n, m <= 5"]
    n = 0
    runs = model_runs(ctx.quick)
    results = ctx.mc_batch("MCMetrics", [(name, text, None) for name, text in runs], parallel=4, workers=4)
    for name, text in runs:
        res = results[name]
        two = len(text.split("Letters = {")[1].split("}")[0].split(",")) == 2
        items = []
        for doc in ctx.sample([d for d in res.printed if "kind" in d], 120000):
            n += 1
            items.append((n, doc, ("AC", "YW", "xy", "\u00e9\u03bb", "\u4eac\U0001F9EC")[n % 5] if two else ("ACD", "\u00f1\u20ac\u6771")[n % 2]))
        res.printed = []
        ctx.parallel(items, _replay_item, chunk=1000)
    ctx.exhaustive = True
    sessions = make_sessions(ctx, 40 if ctx.quick else 400)
    verd = tcm.validate(ctx, "TraceMetrics", [{k: v for k, v in s.items() if k != "strs"} for s in sessions], constants=TRACE_CONSTS)
    nlift = {}
    for s in sessions:
        ctx.traces += 1
        ev = s["events"][0]
        ctx.case(dict(kind="session:" + ev["op"], w=ev["w"], fam=ev.get("fam"), n=ev.get("n"), m=ev.get("m"), nX=len(ev.get("X", []))), nontrivial=True)
        # a condensed vector holds one direction only: lifting it needs a symmetric metric (insertion weight = deletion weight)
        if (s.get("strs") and not ev["raised"] and not tcm.failures(verd[s["sid"]]) and nlift.get(ev["op"], 0) < (2 if ctx.quick else 12)
                and (ev["op"] == "Matrix" or ev["w"][0] == ev["w"][1])):
            nlift[ev["op"]] = nlift.get(ev["op"], 0) + 1
            lifted_big(ctx, s, sum(nlift.values()))
        for l, op, clause in tcm.failures(verd[s["sid"]]):
            ctx.violation(f"metric/{op}/{clause}", f"metric session {ev.get('fam', '')} w={ev['w']} n={ev.get('n')} m={ev.get('m')}: {clause} {ev.get('exc', '')} got d={ev.get('d')}"[:400],
                          dict(kind="session", session=s))
    # corrupted traces
    bad = []
    for s in sessions:
        ev = s["events"][0]
        if ev["op"] == "Closed" and not any(w == "long_string_distance_wrong" for _, w in bad):
            c = copy.deepcopy(s); c["sid"] = 990001; c["events"][0]["d"] = (c["events"][0]["d"] + 256) % 65536
            bad.append((c, "long_string_distance_wrong"))
        if ev["op"] == "Vector" and len(ev.get("vec", [])) >= 3 and len(set(ev["vec"])) > 1 and not any(w == "entry_wrong" for _, w in bad):
            c = copy.deepcopy(s); c["sid"] = 990002; v = c["events"][0]["vec"]
            i = next(i for i in range(len(v) - 1) if v[i] != v[i + 1]); v[i], v[i + 1] = v[i + 1], v[i]
            bad.append((c, "entry_wrong"))
    if bad:
        v2 = tcm.validate(ctx, "TraceMetrics", [{k: v for k, v in b.items() if k != "strs"} for b, _ in bad], constants=TRACE_CONSTS, count=False)
        for c, want in bad:
            ok = any(cl == want for _, _, cl in tcm.failures(v2[c["sid"]]))
            ctx.negative.append(dict(kind="corrupted_trace", corruption=want, rejected=ok))
            if not ok:
                raise MachineryFailure(f"corrupted metric trace ({want}) accepted")
    run_cfg(ctx, "NEG_swap", cfg_text(["cdist"], maxlen=2, maxm=1, maxmb=1, weights="W12", mutations=["swap_ins_del"], invs=("CdistExact",), emit=False),
            expect_violation=["CdistExact"], workers=4)
    run_cfg(ctx, "NEG_transposed", cfg_text(["pdist"], maxlen=2, maxm=2, weights="W12", mutations=["transposed"], invs=("PdistLayout",), emit=False),
            expect_violation=["PdistLayout"], workers=4)


def replay(doc):
    from ..core import Ctx
    ctx = Ctx("C08", "quick", 0)
    ctx._known = []
    r = doc["replay"]
    if r.get("kind") == "replay":
        for n in range(6):
            replay_doc(ctx, r["doc"], n, r["letters"])
        return 1 if ctx.violations else 0
    print("re-run ./check C08 (sessions are regenerated from the seed)")
    return 1
