"""C11 - kdtree results are independent of worker count, chunking and compression; max_returns."""
from __future__ import annotations

import shutil

from .. import nncommon as nc
from .. import pool as pl
from .. import tracecommon as tcm
from ..core import MachineryFailure, mix

FAMILY = ["CASSLGQAYEQYF", "CASSLGQAYEQF", "CASSLGAAYEQYF", "CASRLGQAYEQYF", "CASSLGQAYEQYF", "CASSPGQAYEQYF",
          "CASSLGQGYEQYF", "CASSLGQAYEHYF"]
MODES = [("lev", "none"), ("hamming", "none"), ("custom", "hamlen"), ("custom", "lev2")]


def kd_kwargs(mode, cd, k):
    kw = dict(max_edits=k)
    if mode == "hamming":
        kw["custom_distance"] = "hamming"
    elif mode == "custom":
        kw["custom_distance"] = nc.cd_function(cd)
        kw["max_custom_distance"] = 8.0
    return kw


def canon(ret):
    return sorted((int(a), int(b), float(d)) for a, b, d in ret)


def seqs_for(rng, n):
    base = [rng.choice(FAMILY) for _ in range(n)]
    out = [nc.mutate(rng, s, rng.randint(0, 1)) for s in base]
    if n >= 4 and rng.random() < 0.4:
        # one length only, relatives by a deletion here and an insertion there (Levenshtein 2, many mismatching positions): whatever
        # the workers / chunks / compression make of the candidate sets, such pairs are neighbours at max_edits >= 2
        x = out[0]
        for t in range(1, n):
            i, j = rng.randrange(len(x)), rng.randrange(len(x))
            y = x[:i] + x[i + 1:]
            out[t] = y[:j] + rng.choice(nc.AA) + y[j:]
            if t % 3 == 0:
                x = out[t]
    return out


def with_pool(nn, factory, fn):
    orig = nn.Pool
    nn.Pool = factory
    try:
        return fn()
    finally:
        nn.Pool = orig


def classify(n, ncpu, what):
    rel = "ncpu>n" if ncpu > n else ("ncpu|n" if n % ncpu == 0 else "ncpu∤n")
    return f"kdtree/pool/{rel}/{what}"


def run_case(ctx, nn, seqs, ncpu, mode, cd, k, comp, finish_order, desc, real=False):
    """Run kdtree under the given pool schedule and compare with the single-process uncompressed run."""
    kw = kd_kwargs(mode, cd, k)
    serial = canon(nn.kdtree(list(seqs), **kw))
    # decoy: another call first, so that a stale parameter block gives a wrong answer instead of an error
    nn.kdtree(["CAAAAAF", "CAAAAF", "CAAADAF"], max_edits=3 if k != 3 else 2)
    log = []
    try:
        got = canon(with_pool(nn, lambda p: pl.SpecDrivenPool(nn, p, finish_order, log),
                              lambda: nn.kdtree(list(seqs), n_cpu=ncpu, compression=comp, **kw)))
    except Exception as e:     # noqa: BLE001
        ctx.violation(classify(len(seqs), ncpu, "raised:" + type(e).__name__),
                      f"kdtree({seqs}, n_cpu={ncpu}, compression={comp}, mode={mode}/{cd}, max_edits={k}) raised {type(e).__name__}: {e} [{desc}]"[:600],
                      dict(kind="pool", seqs=seqs, ncpu=ncpu, comp=comp, mode=mode, cd=cd, k=k, finish_order=finish_order))
        return log
    if got != serial:
        ctx.violation(classify(len(seqs), ncpu, "differs_from_serial"),
                      f"kdtree({seqs}, n_cpu={ncpu}, compression={comp}, mode={mode}/{cd}, max_edits={k}) = {got[:6]}.. serial {serial[:6]}.. [{desc}]"[:700],
                      dict(kind="pool", seqs=seqs, ncpu=ncpu, comp=comp, mode=mode, cd=cd, k=k, finish_order=finish_order))
    return log


def real_pool_session(nn, sid, seqs, ncpu, mode, cd, k):
    """One real multiprocessing run, recorded and turned into a TraceKdPool session."""
    kw = kd_kwargs(mode, cd, k)
    serial = canon(nn.kdtree(list(seqs), **kw))
    nn.kdtree(["CAAAAAF", "CAAAAF", "CAAADAF"], max_edits=3 if k != 3 else 2)
    n = len(seqs)
    if ncpu == 1:
        raised, got = False, None
        try:
            got = canon(nn.kdtree(list(seqs), n_cpu=1, **kw))
        except Exception:     # noqa: BLE001
            raised = True
        return dict(sid=sid, n=n, ncpu=1, events=[dict(op="Serial", equal_serial=(got == serial), raised=raised)])
    recdir = pl.new_recdir()
    log = []
    raised, got, exc = False, None, ""
    try:
        try:
            got = canon(with_pool(nn, lambda p: pl.RecordingPool(nn, p, log, recdir),
                                  lambda: nn.kdtree(list(seqs), n_cpu=ncpu, **kw)))
        except Exception as e:     # noqa: BLE001
            raised, exc = True, f"{type(e).__name__}: {e}"[:200]
        wl = pl.read_worker_logs(recdir)
    finally:
        shutil.rmtree(recdir, ignore_errors=True)
    fork = next((e for e in log if e["ev"] == "fork"), None)
    mp = next((e for e in log if e["ev"] == "map"), None)
    want_tag = [n, str(seqs[0]), k, -1, "fn" if mode == "custom" else ("hamming" if mode == "hamming" else "None")]
    events = []
    cs = mp["chunksize"] if mp else 0
    events.append(dict(op="Fork", n=mp["n"] if mp else -1, ncpu=fork["ncpu"] if fork else -1, chunksize=cs if cs is not None else -1,
                       tag_ok=bool(fork and fork["tag"] == want_tag)))
    # per-process task runs -> chunks (consecutive tasks handled by one process, cut at chunksize)
    chunks = []
    for w, (pid, rows) in enumerate(sorted(wl.items()), 1):
        cur = []
        for r in rows:
            if cur and (r["task"] != cur[-1]["task"] + 1 or (cs and len(cur) >= cs)):
                chunks.append((w, cur))
                cur = []
            cur.append(r)
        if cur:
            chunks.append((w, cur))
    chunks.sort(key=lambda c: c[1][0]["task"])
    for w, rows in chunks:
        events.append(dict(op="Chunk", w=w, tasks=[r["task"] + 1 for r in rows], tags_ok=[r["tag"] == want_tag for r in rows]))
    seen = sorted(r["task"] + 1 for _, rows in chunks for r in rows)
    events.append(dict(op="Assemble", equal_serial=(got == serial), raised=raised, tasks_sorted=seen, exc=exc))
    return dict(sid=sid, n=n, ncpu=ncpu, events=events, desc=dict(seqs=seqs, mode=mode, cd=cd, k=k))


def surface_family(n, k, salt):
    """n sequences of one length around x = p + a*k + q: y = p + b*k + q (exactly k substitutions of the same letter pair, i.e.
    composition distance sqrt(2)*k), then single substitutions of x and y; the last one is always a neighbour of x or y."""
    L = nc.AA
    a, b = L[mix(salt) % len(L)], L[mix(salt + 1) % len(L)]
    if a == b:
        b = L[(L.index(a) + 1) % len(L)]
    pre = "".join(L[mix(salt + 10 + i) % len(L)] for i in range(3))
    post = "".join(L[mix(salt + 20 + i) % len(L)] for i in range(4))
    x, y = pre + a * k + post, pre + b * k + post
    out = [x, y]
    i = 0
    while len(out) < n:
        src = out[i % 2]
        pos = mix(salt + 100 + i) % len(src)
        ch = L[mix(salt + 200 + i) % len(L)]
        out.append(src[:pos] + ch + src[pos + 1:])
        i += 1
    return out[:n] if n >= 2 else [x]


def _grid_item(ctx, i, item):
    import pyrepseq.nn as nn
    n, ncpu = item
    k = 1 + mix(n * 31 + ncpu) % 3
    comp = (1, 2, 5, 25)[mix(n * 17 + ncpu * 3) % 4]
    mode, cd = MODES[mix(n + ncpu * 7) % len(MODES)]
    seqs = surface_family(n, k, n * 1000 + ncpu)
    if n >= 3:
        seqs = seqs[2:] + seqs[:2] if mix(n + ncpu) % 2 else seqs          # the surface pair last (or first)
    order = list(range(1, n + 1))
    order = order[mix(n * ncpu) % n:] + order[:mix(n * ncpu) % n]
    run_case(ctx, nn, seqs, ncpu, mode, cd, k, comp, order, desc="grid")
    ctx.case(dict(kind="grid", n=n, ncpu=ncpu, compression=comp, mode=mode, k=k), nontrivial=ncpu > 1 and n > 1)


def run(ctx):
    import pyrepseq.nn as nn
    ctx.rule = ("KdPool.tla: every interleaving of Take/Finish for <=5 tasks x <=4 workers x 2 consecutive calls is model-checked "
                "(ResultIsSerial, NoStaleParams, NoError, ChunksPartition, SlotsOnce). spec->code: every complete schedule TLC emits is "
                "executed on the real kdtree/_to_triplets through SpecDrivenPool (fork-time snapshot of the parameter block, a decoy "
                "call before each run) and compared with the single-process uncompressed run, in lev/hamming/custom modes; configuration "
                "sweep n x n_cpu x compression x max_returns; code->spec: real multiprocessing runs recorded per process and validated by "
                "TraceKdPool.tla; max_returns sessions validated by TraceNN.tla (JoinLimited). Non-trivial = n_cpu > 1 and at least one pair.")
    ctx.assumptions = ["SpecDrivenPool models multiprocessing.Pool as KdPool.tla does (children inherit module state at Pool creation; "
                       "map returns in chunk order, imap_unordered in finish order)",
                       "the serial kdtree result itself is validated against the reference distance in C04 and in the JoinLimited sessions here"]
    # ---- M
    ctx.mc("MCKdPool", "KdPool_mc.cfg", workers=16)
    ctx.mc("MCKdPool", "KdPool_live.cfg", workers=8)        # liveness under weak fairness: AllCallsReturn, EveryChunkFinishes
    for dev, inv in (("chunk0", ["NoError"]), ("fork_before_set", ["NoStaleParams", "ResultIsSerial", "AllResultsSerial"]),
                     ("unordered", ["ResultIsSerial", "AllResultsSerial"])):
        neg_cfg(ctx, dev, inv)
    # ---- R: schedules
    res = ctx.mc("MCKdPool", "KdPool_gen.cfg" if ctx.quick else "KdPool_gen_t.cfg", workers=8)
    nsched = 0
    for doc in res.printed:
        if "sched" not in doc:
            continue
        call = doc["calls"][0]
        n, ncpu = call["n"], call["ncpu"]
        finish = [e[2] for e in doc["sched"] if e[0] == "F"]
        mode, cd = MODES[nsched % len(MODES)]
        k = 1 + (nsched // 4) % 2
        seqs = seqs_for(ctx.rng, n)
        log = run_case(ctx, nn, seqs, ncpu, mode, cd, k, comp=1 + nsched % 3, finish_order=finish, desc=f"TLC schedule {doc['sched']}")
        nsched += 1
        ctx.traces += 1
        ctx.case(dict(kind="schedule", n=n, ncpu=ncpu, finish_order=finish, mode=mode, seqs=seqs[:4]), nontrivial=ncpu > 1 and len(finish) > 1)
        if any(e["ev"] == "schedule_mismatch" for e in log):
            ctx.extra["chunking_drift"] = ctx.extra.get("chunking_drift", 0) + 1
    # ---- configuration sweep (random finish orders), incl. n_cpu > n and compression 1..25
    nsweep = 150 if ctx.quick else 2500
    for r in range(nsweep):
        n = ctx.rng.randint(1, 24)
        ncpu = ctx.rng.randint(1, 16)
        comp = ctx.rng.randint(1, 25)
        mode, cd = ctx.rng.choice(MODES)
        k = ctx.rng.choice([1, 2, 3])
        seqs = seqs_for(ctx.rng, n)
        order = list(range(1, n + 1))
        ctx.rng.shuffle(order)
        run_case(ctx, nn, seqs, ncpu, mode, cd, k, comp, order, desc="sweep")
        ctx.case(dict(kind="sweep", n=n, ncpu=ncpu, compression=comp, mode=mode, k=k), nontrivial=ncpu > 1)
    # ---- deterministic grid: every list size 1..48 with every worker count 1..16 (block-boundary arithmetic depends on the exact
    #      ratio), the last sequence always has a neighbour; sequences include pairs that lie exactly on the surface of the search ball
    #      (max_edits substitutions of one letter by one other letter), compression cycles through 1, 2, 5, 25
    grid = [(n, c) for n in range(1, 49 if ctx.quick else 97) for c in range(1, 17)]
    ctx.parallel(grid, _grid_item, chunk=64)
    # ---- max_returns sessions (TraceNN JoinLimited)
    sessions = []
    for r in range(24 if ctx.quick else 96):
        m = 1 + mix(r) % 3
        k = 1 + mix(r + 500) % 3
        mode = ("lev", "lev", "hamming", "custom", "custom", "lev")[r % 6]         # every mode in turn, not left to the draw
        seqs = nc.repertoire(ctx.rng, ctx.rng.randint(8, 30), maxmut=2, maxlen=13, families=(1 if r % 3 == 0 else 3), same_length=(mode == "hamming" and r % 2 == 0))
        if r % 6 == 5:
            # pairs exactly on the surface of the search ball, searched without compression and with it
            seqs = surface_family(ctx.rng.randint(4, 12), k, r)
        if r % 6 == 1:
            # equal lengths, deletion + insertion relatives, a generous limit: the number of reported neighbours per query is
            # min(limit, number of true neighbours) whatever the compression
            mode, k, m = "lev", ctx.rng.choice([2, 3]), ctx.rng.choice([3, 5])
            x = "".join(ctx.rng.choice(nc.AA) for _ in range(ctx.rng.randint(7, 10)))
            seqs = [x]
            for t in range(ctx.rng.randint(6, 14)):
                i, j = ctx.rng.randrange(len(x)), ctx.rng.randrange(len(x))
                y = x[:i] + x[i + 1:]
                seqs.append(y[:j] + ctx.rng.choice(nc.AA) + y[j:])
                if t % 4 == 3:
                    x = seqs[-1]
        inp = nc.make_inp("kd", mode, k, seqs, cd="hamlen" if mode == "custom" else "none", maxc=8 if mode == "custom" else nc.INF,
                          comp=(1, 2, 5)[mix(r + 900) % 3] if r % 6 != 4 else (2, 5)[r // 6 % 2])
        ncpu = (1, 2, 3)[mix(r + 300) % 3] if r % 2 else (16, 40, 7)[r // 2 % 3]        # also far more workers than sequences
        raised, ret = None, []
        try:
            order = list(range(1, len(seqs) + 1))
            ctx.rng.shuffle(order)
            log = []
            ret = nc.norm_triplets(with_pool(nn, lambda p: pl.SpecDrivenPool(nn, p, order, log),
                                             lambda: nc.call_engine(inp, n_cpu=ncpu, max_returns=m)), mode)
        except Exception as e:     # noqa: BLE001
            raised = e
        sessions.append(dict(sid=r + 1, inp=inp, letters=nc.AA, api="kdtree", limit=m, ncpu=ncpu,
                             events=[dict(op="CheckInput", raised=False), dict(op="Build", logged=False),
                                     dict(op="JoinLimited", limit=m, raised=raised is not None, ret=ret,
                                          exc=f"{type(raised).__name__}: {raised}"[:200] if raised else "")]))
        ctx.case(dict(kind="max_returns", m=m, n=len(seqs), k=k, mode=mode, ncpu=ncpu, returned=len(ret)), nontrivial=len(ret) > 0)
    verd = nc.validate_sessions(ctx, sessions, invariants=("Exact", "NoRepeat", "NoSelf"))
    for s in sessions:
        ctx.traces += 1
        for l, op, clause in nc.failed_api_clauses(verd[s["sid"]])[0] + [(x, y, z) for x, y, z in nc.failed_api_clauses(verd[s["sid"]])[1] if y == "JoinLimited"]:
            ctx.violation(f"kdtree/max_returns/{s['inp']['mode']}/{clause}",
                          f"kdtree({[nc.dec(x) for x in s['inp']['seqs']][:8]}.., max_returns={s['limit']}, n_cpu={s['ncpu']}, mode={s['inp']['mode']}, max_edits={s['inp']['k']}): {clause} {s['events'][2]['exc']}"[:600],
                          dict(kind="session", session=s))
    # corrupted: drop the closest neighbour of a query that has more than m
    import copy
    for s in sessions:
        ev = s["events"][2]
        if ev["ret"]:
            c = copy.deepcopy(s)
            c["sid"] = 970000
            c["events"][2]["ret"][0][2] += 1
            v = nc.validate_sessions(ctx, [c], count=False, invariants=())
            ok = any(cl == "limit_not_true_neighbour" for _, _, cl in nc.failed_api_clauses(v[c["sid"]])[1] + nc.failed_api_clauses(v[c["sid"]])[0])
            ctx.negative.append(dict(kind="corrupted_trace", corruption="limited:distance", rejected=ok))
            if not ok:
                raise MachineryFailure("corrupted max_returns trace accepted")
            break
    # ---- T: real multiprocessing runs
    real = []
    combos = [(1, 2), (3, 2), (7, 3), (5, 16), (12, 5), (24, 16), (6, 1)] if ctx.quick else \
             [(n, c) for n in (1, 2, 3, 7, 12, 24) for c in (1, 2, 3, 5, 8, 16)]
    for i, (n, ncpu) in enumerate(combos):
        mode, cd = MODES[i % len(MODES)]
        if mode == "hamming":
            mode, cd = "lev", "none"        # one pool per call keeps the recorded session a single Fork
        real.append(real_pool_session(nn, i + 1, seqs_for(ctx.rng, n), ncpu, mode, cd, 1 + i % 2))
    verd = tcm.validate(ctx, "TraceKdPool", real, constants="  MaxTasks = 64\n  MaxCpu = 64\n  NCalls = 1\n  Deviations = {}",
                        invariants=("ResultIsSerial", "NoStaleParams", "NoError", "ChunksPartition"), allow_stuck=True)
    for s in real:
        ctx.traces += 1
        ctx.case(dict(kind="real_pool", n=s["n"], ncpu=s["ncpu"], events=[e["op"] for e in s["events"]][:8]), nontrivial=s["ncpu"] > 1)
        if verd[s["sid"]] is None:
            # the recorded task structure is not one the KdPool machine can produce: internal drift; the API-level facts decide
            ctx.note(f"real pool n={s['n']} ncpu={s['ncpu']}: recorded events are not a behaviour of KdPool (internal drift)")
            last = s["events"][-1]
            for e in s["events"]:
                if e.get("raised"):
                    ctx.violation(classify(s["n"], s["ncpu"], "real:raised:" + e.get("exc", "").split(":")[0]),
                                  f"real multiprocessing kdtree n={s['n']} n_cpu={s['ncpu']} {s.get('desc')}: raised {e.get('exc', '')}"[:500], dict(kind="real_pool", session=s))
            if last.get("equal_serial") is False:
                ctx.violation(classify(s["n"], s["ncpu"], "real:differs_from_serial"),
                              f"real multiprocessing kdtree n={s['n']} n_cpu={s['ncpu']} {s.get('desc')}: result differs from the n_cpu=1 result"[:500], dict(kind="real_pool", session=s))
            continue
        for l, op, clause in tcm.failures(verd[s["sid"]]):
            if clause in ("differs_from_serial", "raised"):
                ctx.violation(classify(s["n"], s["ncpu"], "real:" + clause + (":" + s["events"][l - 1].get("exc", "").split(":")[0] if clause == "raised" else "")),
                              f"real multiprocessing kdtree n={s['n']} n_cpu={s['ncpu']} {s.get('desc')}: {clause} {s['events'][l-1].get('exc','')}"[:500],
                              dict(kind="real_pool", session=s))
            else:
                ctx.note(f"real pool n={s['n']} ncpu={s['ncpu']}: internal drift {op}:{clause}")
    # corrupted real trace
    good = next((s for s in real if s["ncpu"] > 1 and verd[s["sid"]] is not None and any(e["op"] == "Chunk" for e in s["events"])), None)
    if good:
        c = copy.deepcopy(good)
        c["sid"] = 980000
        c["events"][-1]["equal_serial"] = False
        v = tcm.validate(ctx, "TraceKdPool", [c], constants="  MaxTasks = 64\n  MaxCpu = 64\n  NCalls = 1\n  Deviations = {}", count=False)
        ok = any(cl == "differs_from_serial" for _, _, cl in tcm.failures(v[c["sid"]]))
        ctx.negative.append(dict(kind="corrupted_trace", corruption="pool:result", rejected=ok))
        if not ok:
            raise MachineryFailure("corrupted pool trace accepted")
    ctx.exhaustive = True


def neg_cfg(ctx, dev, invs):
    import os
    import tempfile
    d = tempfile.mkdtemp(prefix="pvcfg_")
    try:
        path = os.path.join(d, f"NEG_KdPool_{dev}.cfg")
        with open(path, "w") as f:
            f.write("SPECIFICATION Spec\nCONSTANTS\n  MaxTasks = 3\n  MaxCpu = 4\n  NCalls = 2\n  Deviations = {\"%s\"}\nVIEW view\n" % dev)
            for i in ("ResultIsSerial", "AllResultsSerial", "NoStaleParams", "NoError"):
                f.write(f"INVARIANT {i}\n")
        ctx.mc("MCKdPool", path, workers=4, expect_violation=invs)
    finally:
        shutil.rmtree(d, ignore_errors=True)


def replay(doc):
    import pyrepseq.nn as nn
    from ..core import Ctx
    r = doc["replay"]
    ctx = Ctx("C11", "quick", 0)
    ctx._known = []
    if r.get("kind") == "pool":
        run_case(ctx, nn, r["seqs"], r["ncpu"], r["mode"], r["cd"], r["k"], r["comp"], r["finish_order"], "replay")
        return 1 if ctx.violations else 0
    print("re-run ./check C11 (sessions are regenerated from the seed)")
    return 1
