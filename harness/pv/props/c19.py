"""C19 - summaries and plots encode the data faithfully (drawn data are read back from the figure objects)."""
from __future__ import annotations

import copy
import itertools
import os
import re
import shutil
import tempfile

import numpy as np

from .. import estim
from .. import nncommon as nc
from .. import ratio
from .. import tracecommon as tcm
from ..core import MachineryFailure

INVS = ("RegexIsProductLanguage", "RegexMatchesInputs", "CountsExact", "RankDescending", "ScatterOnce")
TRACE_CONSTS = ("  Residues = {0}\n  MaxLen = 1\n  MaxSeqs = 1\n  RankVals = {1}\n  MaxRank = 1\n  PointVals = {0}\n  MaxPoints = 1\n  Kinds = {\"align\"}\n  Mutations = {}")
GAP = 99


def cfg_text(kinds, residues=(0, 1), maxlen=3, maxseqs=3, rankvals=(0, 1, 2), maxrank=4, pointvals=(0, 1), maxpoints=4, mutations=(), invs=INVS, emit=True):
    t = "SPECIFICATION Spec\nCONSTANTS\n"
    t += f"  Residues = {{{', '.join(map(str, residues))}}}\n  MaxLen = {maxlen}\n  MaxSeqs = {maxseqs}\n  RankVals = {{{', '.join(map(str, rankvals))}}}\n  MaxRank = {maxrank}\n"
    t += f"  PointVals = {{{', '.join(map(str, pointvals))}}}\n  MaxPoints = {maxpoints}\n"
    t += "  Kinds = {" + ", ".join(f'"{k}"' for k in kinds) + "}\n"
    t += "  Mutations = {" + ", ".join(f'"{k}"' for k in mutations) + "}\n"
    for i in invs:
        t += f"INVARIANT {i}\n"
    if emit:
        t += "INVARIANT EmitCase\n"
    return t


def run_cfg(ctx, name, text, expect_violation=None, workers=16):
    d = tempfile.mkdtemp(prefix="pvcfg_")
    try:
        p = os.path.join(d, name + ".cfg")
        with open(p, "w") as f:
            f.write(text)
        return ctx.mc("MCSummaries", p, workers=workers, expect_violation=expect_violation)
    finally:
        shutil.rmtree(d, ignore_errors=True)


_FIG = {}


def axes():
    import matplotlib.pyplot as plt
    if "ax" not in _FIG:
        _FIG["fig"], _FIG["ax"] = plt.subplots()
    _FIG["ax"].clear()
    return _FIG["ax"]


def replay_align(ctx, doc, n, logos):
    import pyrepseq as prs
    letters = ("AC", "DE", "WY", "CF")[n % 4]
    other = "K"
    strs = ["".join("-" if c == GAP else letters[c] for c in s) for s in doc["seqs"]]
    L = len(strs[0])
    rp = dict(kind="align", doc=doc, n=n)
    ctx.case(dict(fn="seqs_to_regex/consensus", seqs=strs), nontrivial=any("-" in s for s in strs) or len(set(strs)) > 1)
    try:
        rx = prs.seqs_to_regex(strs, align=False)
        universe = [""] + ["".join(p) for k in range(1, L + 1) for p in itertools.product(letters + other, repeat=k)]
        got = {w for w in universe if re.fullmatch(rx, w)}
        want = {"".join(letters[c] for c in w) for w in doc["lang"]}
        if got != want:
            ctx.violation("seqs_to_regex/language_differs", f"seqs_to_regex({strs}) = {rx!r}: accepts {sorted(got - want)[:5]} extra, rejects {sorted(want - got)[:5]}", rp)
    except Exception as e:      # noqa: BLE001
        ctx.violation("seqs_to_regex/raised", f"seqs_to_regex({strs}) raised {type(e).__name__}: {e}"[:300], rp)
    try:
        cons = prs.seqs_to_consensus(strs, align=False)
        # majority-gap positions may be skipped (not judged); every other position holds a most frequent residue
        def ok(p, rest):
            if p == L:
                return rest == ""
            allowed = {letters[c] for c in doc["consensus"][p]}
            if rest and rest[0] in allowed and ok(p + 1, rest[1:]):
                return True
            return doc["gapmajority"][p] and ok(p + 1, rest)
        if not ok(0, cons):
            ctx.violation("seqs_to_consensus/not_most_frequent", f"seqs_to_consensus({strs}) = {cons!r}; most frequent per position {[[letters[c] for c in s] for s in doc['consensus']]}", rp)
    except Exception as e:      # noqa: BLE001
        ctx.violation("seqs_to_consensus/raised", f"seqs_to_consensus({strs}) raised {type(e).__name__}: {e}"[:300], rp)
    if logos:
        import matplotlib.pyplot as plt
        try:
            ax, mat = prs.plotting.seqlogos(strs, ax=axes())
            for p in range(L):
                for c, cnt in doc["counts"][p]:
                    ch = letters[c]
                    have = int(mat.loc[p, ch]) if ch in mat.columns else 0
                    if have != cnt:
                        ctx.violation("seqlogos/count_wrong", f"seqlogos({strs}) count[{p}][{ch}] = {have} want {cnt}", rp)
                        return
            if mat.shape[0] != L:
                ctx.violation("seqlogos/count_wrong", f"seqlogos({strs}) count matrix has {mat.shape[0]} positions, want {L}", rp)
        except Exception as e:      # noqa: BLE001
            ctx.violation("seqlogos/raised", f"seqlogos({strs}) raised {type(e).__name__}: {e}"[:300], rp)
        finally:
            plt.close("all")
            _FIG.clear()


def rank_call(vals, nx, ny, scalex, scaley, variant):
    import pandas as pd
    import pyrepseq as prs
    data = [np.nan if v == -1 else float(v) for v in vals]
    data = [data, np.array(data), pd.Series(data, index=[f"c{i}" for i in range(len(data))])][variant % 3]
    extra = [{}, dict(color="k"), dict(where="post", lw=0.5), dict(transform_x=None, transform_y=None)][variant % 4]
    ret = prs.plotting.rankfrequency(data, ax=axes(), normalize_x=nx, normalize_y=ny, scalex=scalex, scaley=scaley,
                                     log_x=bool(variant % 2), log_y=bool(variant % 2), **extra)
    line = ret[0]
    return [float(x) for x in line.get_xdata()], [float(y) for y in line.get_ydata()]


def replay_rank(ctx, doc, n):
    rp = dict(kind="rank", doc=doc, n=n)
    ctx.case(dict(fn="rankfrequency", vals=doc["vals"], opt=doc["opt"]), nontrivial=len(set(doc["vals"])) > 1)
    try:
        xs, ys = rank_call(doc["vals"], doc["opt"]["nx"], doc["opt"]["ny"], 1.0, 1.0, n)
    except Exception as e:      # noqa: BLE001
        ctx.violation("rankfrequency/raised", f"rankfrequency({doc['vals']}, {doc['opt']}) raised {type(e).__name__}: {e}"[:300], rp)
        return
    want = doc["out"]
    if len(xs) != len(want) or not all(estim.close(x, w[0]) and estim.close(y, w[1]) for x, y, w in zip(xs, ys, want)):
        ctx.violation("rankfrequency/data_wrong", f"rankfrequency({doc['vals']} [-1 = missing], {doc['opt']}) drew x={xs} y={ys} want {want}"[:500], rp)


def replay_scatter(ctx, doc, n):
    import pyrepseq as prs
    rp = dict(kind="scatter", doc=doc, n=n)
    xs = [p[0] * 3 + 1 for p in doc["vals"]]
    ys = [p[1] * 2 - 1 for p in doc["vals"]]
    ctx.case(dict(fn="density_scatter", points=doc["vals"]), nontrivial=len({tuple(p) for p in doc["vals"]}) < len(doc["vals"]))
    try:
        ax = prs.plotting.density_scatter(xs, ys, ax=axes(), discrete=True, sort=bool(n % 2), **([{}, dict(s=4), dict(cmap="viridis")][n % 3]))
        coll = ax.collections[-1]
        got = sorted((round(float(o[0]), 9), round(float(o[1]), 9), int(c)) for o, c in zip(coll.get_offsets(), coll.get_array()))
    except Exception as e:      # noqa: BLE001
        ctx.violation("density_scatter/raised", f"density_scatter({doc['vals']}) raised {type(e).__name__}: {e}"[:300], rp)
        return
    want = sorted((float(p[0] * 3 + 1), float(p[1] * 2 - 1), p[2]) for p in doc["out"])
    if got != want:
        ctx.violation("density_scatter/points_wrong", f"density_scatter({list(zip(xs, ys))}, discrete) drew {got} want {want}", rp)


# ---------------------------------------------------------------- recorded sessions

def intern_colours(cols):
    ids, out = {}, []
    for c in cols:
        key = tuple(round(float(v), 6) for v in list(c)[:3])
        if key == (0.0, 0.0, 0.0):
            out.append(0)
        else:
            out.append(ids.setdefault(key, len(ids) + 1))
    return out


def make_sessions(ctx, n, heat):
    import pandas as pd
    import matplotlib.pyplot as plt
    import scipy.cluster.hierarchy as hc
    import pyrepseq as prs
    out, side = [], []
    nheat = 1                                   # (the first paired heat map uses positional labels)
    amap = {c: i for i, c in enumerate(nc.AA)}
    for sid in range(1, n + 1):
        typ = sid % 3
        if typ == 0:
            k = ctx.rng.randint(1, 9)
            labels = [ctx.rng.randint(1, k) for _ in range(ctx.rng.randint(1, 30))]
            minc = ctx.rng.choice([0, 0, 1, 2, 3, 5])
            if sid % 18 == 3:
                # hundreds of distinct labels (more than any fixed-size colour table holds)
                k = ctx.rng.choice([257, 300, 420])
                labels = list(range(1, k + 1)) + [ctx.rng.randint(1, k) for _ in range(120)]
                ctx.rng.shuffle(labels)
                minc = ctx.rng.choice([0, 2])
            hls = bool(sid % 2)
            fn = prs.plotting.labels_to_colors_hls if hls else prs.plotting.labels_to_colors_tableau
            names = [f"clone{v}" for v in labels] if sid % 4 < 2 else labels
            ev = dict(op="Colors", labels=labels, minc=minc, hls=hls, cols=[], raised=False)
            try:
                np.random.seed(sid)
                kw = dict(palette_kws=dict(l=0.35, s=0.9)) if (hls and sid % 8 >= 4) else {}
                ev["cols"] = intern_colours(fn(np.array(names) if sid % 3 else names, min_count=minc or None, **kw))
            except Exception as e:      # noqa: BLE001
                ev.update(raised=True, exc=f"{type(e).__name__}: {e}"[:200])
        elif typ == 1:
            vals = [ctx.rng.choice([-1, 0, 0, 1, 1, 2, 3, 5, 8, 13, 40]) for _ in range(ctx.rng.randint(1, 25))]
            if not any(v > 0 for v in vals):
                vals[0] = 4
            nx, ny = ctx.rng.random() < 0.5, ctx.rng.random() < 0.5
            sx, sy = ctx.rng.choice([1, 2, 5]), ctx.rng.choice([1, 3])
            ev = dict(op="Rank", vals=vals, nx=nx, ny=ny, scalex=sx, scaley=sy, xs=[], ys=[], raised=False)
            try:
                xs, ys = rank_call(vals, nx, ny, float(sx), float(sy), sid)
                ev["xs"] = [ratio.snap(x)[0] for x in xs]
                ev["ys"] = [ratio.snap(y)[0] for y in ys]
            except Exception as e:      # noqa: BLE001
                ev.update(raised=True, exc=f"{type(e).__name__}: {e}"[:200])
        else:
            if len([s for s in out if s["events"][0]["op"] == "Heat"]) >= heat:
                continue
            m = ctx.rng.randint(3, 9)
            sa = nc.repertoire(ctx.rng, m, maxmut=2, maxlen=9, families=2, short=0)
            sb = nc.repertoire(ctx.rng, m, maxmut=2, maxlen=9, families=2, short=0)
            if sid % 2:
                # two-letter chains of mixed lengths: an alignment of "alpha_beta" strings across the separator is often cheaper than
                # the two chains aligned separately, so distances of concatenated chains differ from the summed chain distances
                sa = ["".join(ctx.rng.choice("AC") for _ in range(ctx.rng.randint(2, 7))) for _ in range(m)]
                sb = ["".join(ctx.rng.choice("AC") for _ in range(ctx.rng.randint(2, 7))) for _ in range(m)]
            single = sid % 6 == 2
            # column labels: ordinary names, positional labels of a frame built without names (0 and 1), the empty string
            ca, cb = ("cdr3a", "cdr3b") if single else [("cdr3a", "cdr3b"), (0, 1), ("", "beta"), ("alpha", 0)][nheat % 4]
            nheat += 1
            df = pd.DataFrame({ca: sa, cb: sb, "donor": [f"d{i % 2}" for i in range(m)]}, index=[f"cell{i}" for i in range(m)][::-1])
            vec = [nc._lev(sa[i], sa[j]) + (0 if single else nc._lev(sb[i], sb[j])) for i in range(m) for j in range(i + 1, m)]
            ev = dict(op="Heat", seqsA=[nc.enc(x, amap) for x in sa], seqsB=[nc.enc(x, amap) for x in (sa if single else sb)], single=single,
                      order=[], data2d=[], vec=vec, raised=False)
            try:
                np.random.seed(sid)
                kw = dict(alpha_column=ca, beta_column=None) if single else dict(alpha_column=ca, beta_column=cb)
                if sid % 4 == 0:
                    kw.update(meta_columns=["donor"])
                if sid % 5 == 0:
                    import matplotlib.colors as mcolors
                    kw.update(norm=mcolors.Normalize(0, 12), cbar_kws=dict(label="d", orientation="vertical"))
                if sid % 7 == 0:
                    kw.update(bounds=np.arange(0, 9, 2))
                if sid % 8 == 0:
                    kw.update(meta_columns=["donor"], meta_to_colors=[prs.plotting.labels_to_colors_tableau, prs.plotting.labels_to_colors_tableau])
                lkw, ckw = dict(method="average", optimal_ordering=True), dict(t=6, criterion="distance")
                if sid % 9 == 0:
                    lkw, ckw = dict(method="single"), dict(t=3, criterion="distance")
                    kw.update(linkage_kws=dict(lkw), cluster_kws=dict(ckw))
                elif sid % 9 == 3:
                    lkw, ckw = dict(method="complete", optimal_ordering=False), dict(t=2, criterion="maxclust")
                    kw.update(linkage_kws=dict(lkw), cluster_kws=dict(ckw))
                cg, link, cluster = prs.plotting.similarity_clustermap(df, **kw)
                ev["order"] = [int(i) + 1 for i in cg.dendrogram_row.reordered_ind]
                ev["data2d"] = [[int(v) for v in row] for row in np.asarray(cg.data2d).tolist()]
                want_link = hc.linkage(np.array(vec, dtype=float), **lkw)
                want_cluster = hc.fcluster(want_link, **ckw)
                if not (np.allclose(link, want_link) and list(cluster) == list(want_cluster)):
                    side.append((sid, "similarity_clustermap/linkage_or_cluster_differs_from_hierarchical_clustering", f"seqs {sa} / {sb}"))
            except Exception as e:      # noqa: BLE001
                ev.update(raised=True, exc=f"{type(e).__name__}: {e}"[:200])
            finally:
                plt.close("all")
                _FIG.clear()
        out.append(dict(sid=sid, events=[ev]))
    return out, side


def _replay_item(ctx, i, item):
    n, doc, logos = item
    k = doc["kind"]
    if k == "align":
        replay_align(ctx, doc, n, logos)
    elif k == "rank":
        replay_rank(ctx, doc, n)
    else:
        replay_scatter(ctx, doc, n)
    ctx.traces += 1


def run(ctx):
    import matplotlib
    matplotlib.use("Agg")
    ctx.rule = ("Summaries.tla: the per-position count matrix (CountColumn), the regular expression built from it (RegexColumn), rankfrequency "
                "(drop missing, normalise, sort, pair with ranks) and the discrete density scatter are model-checked for all small aligned inputs "
                "with gaps, count vectors with missing values and point sets (RegexIsProductLanguage, RegexMatchesInputs, CountsExact, "
                "RankDescending, ScatterOnce; the '>= 0' regex mutant is rejected). Every terminal behaviour is executed headless: the regex is "
                "matched against ALL strings up to the length bound, consensus / logo counts / Line2D data / scatter offsets and colour array are "
                "read back. Colour assignments, rankfrequency on larger vectors and similarity_clustermap (heat map = alpha below / beta above "
                "the diagonal in dendrogram order; linkage and clusters = SciPy on the spec-checked summed distances) are validated by "
                "TraceSummaries.tla. Non-trivial = gapped or heterogeneous input / repeated points.")
    ctx.assumptions = ["rendering itself is not checked; logomaker's matrix is read from the function's return value", "majority-gap positions of seqs_to_consensus are not judged"]
    q = ctx.quick
    res = run_cfg(ctx, "summaries", cfg_text(["align", "rank", "scatter"], maxlen=3, maxseqs=3 if q else 4, maxrank=4 if q else 5, maxpoints=4))
    n = 0
    nlogo = 0
    items = []
    for doc in ctx.sample([d for d in res.printed if d.get("kind")], 120000):
        k = doc.get("kind")
        n += 1
        if k == "align":
            if q and n % 3:
                continue
            logos = (n % (150 if q else 40) == 0)
            nlogo += logos
            items.append((n, doc, logos))
        else:
            items.append((n, doc, False))
    ctx.parallel(items, _replay_item, chunk=500)
    ctx.extra["seqlogos_cases"] = nlogo
    ctx.exhaustive = True
    sessions, side = make_sessions(ctx, 60 if q else 400, 8 if q else 60)
    for sid, key, what in side:
        ctx.violation(key, what, dict(kind="side", sid=sid))
    verd = tcm.validate(ctx, "TraceSummaries", sessions, constants=TRACE_CONSTS)
    for s in sessions:
        ctx.traces += 1
        ev = s["events"][0]
        ctx.case(dict(kind="session:" + ev["op"], ev={k: (v if not isinstance(v, list) else v[:6]) for k, v in ev.items() if k not in ("op", "data2d")}), nontrivial=True)
        for l, op, clause in tcm.failures(verd[s["sid"]]):
            if clause == "harness_vector_differs_from_spec":
                raise MachineryFailure("harness distance vector differs from the specification's")
            fn = {"Colors": "labels_to_colors_" + ("hls" if ev.get("hls") else "tableau"), "Heat": "similarity_clustermap", "Rank": "rankfrequency"}[op]
            ctx.violation(f"{fn}/{clause}", f"{fn} session: {clause} {ev.get('exc', '')} {str({k: v for k, v in ev.items() if k not in ('data2d',)})[:300]}", dict(kind="session", session=s))
    # negative controls
    bad = []
    for s in sessions:
        ev = s["events"][0]
        if ev["op"] == "Heat" and not ev["raised"] and not ev["single"] and not any(w == "heatmap_not_alpha_below_beta_above" for _, w in bad):
            c = copy.deepcopy(s); c["sid"] = 990001
            d2 = c["events"][0]["data2d"]
            c["events"][0]["data2d"] = [list(r) for r in zip(*d2)]            # transposed: alpha above, beta below
            if c["events"][0]["data2d"] != d2:
                bad.append((c, "heatmap_not_alpha_below_beta_above"))
        if ev["op"] == "Colors" and not ev["raised"] and len(set(ev["labels"])) > 1 and ev["minc"] == 0 and not any(w == "equal_labels_different_colours" for _, w in bad):
            c = copy.deepcopy(s); c["sid"] = 990002
            c["events"][0]["cols"][0] = max(c["events"][0]["cols"]) + 1
            if c["events"][0]["labels"].count(c["events"][0]["labels"][0]) > 1:
                bad.append((c, "equal_labels_different_colours"))
    if bad:
        v2 = tcm.validate(ctx, "TraceSummaries", [b for b, _ in bad], constants=TRACE_CONSTS, count=False)
        for c, want in bad:
            ok = any(cl == want for _, _, cl in tcm.failures(v2[c["sid"]]))
            ctx.negative.append(dict(kind="corrupted_trace", corruption=want, rejected=ok))
            if not ok:
                raise MachineryFailure(f"corrupted summaries trace ({want}) accepted")
    run_cfg(ctx, "NEG_rank", cfg_text(["rank"], maxrank=2, mutations=["rank_drops_zero"], invs=("RankDescending",), emit=False),
            expect_violation=["RankDescending"], workers=4)
    run_cfg(ctx, "NEG_regex", cfg_text(["align"], maxlen=2, maxseqs=2, mutations=["regex_ge"], invs=("RegexIsProductLanguage",), emit=False),
            expect_violation=["RegexIsProductLanguage"], workers=4)


def replay(doc):
    from ..core import Ctx
    ctx = Ctx("C19", "quick", 0)
    ctx._known = []
    r = doc["replay"]
    k = r.get("kind")
    if k == "align":
        replay_align(ctx, r["doc"], r["n"], True)
    elif k == "rank":
        replay_rank(ctx, r["doc"], r["n"])
    elif k == "scatter":
        replay_scatter(ctx, r["doc"], r["n"])
    else:
        print("re-run ./check C19")
        return 1
    return 1 if ctx.violations else 0
