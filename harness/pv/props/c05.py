"""C05 - pcDelta is the exact histogram of all pairwise distances."""
from __future__ import annotations

import copy
import json
import math
import os
import shutil
import tempfile

import numpy as np

from .. import estim
from .. import nncommon as nc
from .. import ratio
from .. import tracecommon as tcm
from ..core import MachineryFailure

INVS = ("CountsExact", "ZeroBin", "SampleSize", "NormalisedSumsToOne", "DefaultMetricTable", "HomoClosedForm")


def cfg_text(letters=(0, 1), maxlen=2, maxn=3, maxn2=0, edgemax=3, maxedges=3, pseudos="P3", elemkinds=("str",), metrickinds=("default",),
             maxseqs=(0,), mutations=(), invs=INVS, emit=True):
    t = "SPECIFICATION Spec\nCONSTANTS\n"
    t += f"  Letters = {{{', '.join(map(str, letters))}}}\n  MaxLen = {maxlen}\n  MaxN = {maxn}\n  MaxN2 = {maxn2}\n  EdgeMax = {edgemax}\n  MaxEdges = {maxedges}\n"
    t += f"  Pseudos <- {pseudos}\n"
    t += "  ElemKinds = {" + ", ".join(f'"{k}"' for k in elemkinds) + "}\n"
    t += "  MetricKinds = {" + ", ".join(f'"{k}"' for k in metrickinds) + "}\n"
    t += "  MaxSeqs = {" + ", ".join(map(str, maxseqs)) + "}\n"
    t += "  Mutations = {" + ", ".join(f'"{k}"' for k in mutations) + "}\n"
    for i in invs:
        t += f"INVARIANT {i}\n"
    if emit:
        t += "INVARIANT EmitCase\n"
    return t


def run_cfg(ctx, name, text, expect_violation=None, workers=16):
    d = tempfile.mkdtemp(prefix="pvcfg_")
    try:
        p = os.path.join(d, name + ".cfg")
        with open(p, "w") as f:
            f.write(text)
        return ctx.mc("MCPcDelta", p, workers=workers, expect_violation=expect_violation)
    finally:
        shutil.rmtree(d, ignore_errors=True)


def model_runs(quick):
    if quick:
        return [("str", cfg_text(maxn=3, maxlen=1)),
                ("str2", cfg_text(maxn=2, maxlen=2, pseudos="P0")),
                ("metrics", cfg_text(maxn=2, maxlen=2, metrickinds=("wlev", "lendiff"), pseudos="P0", edgemax=2)),
                # an asymmetric metric between two collections, the first one shorter / longer / equal
                ("metrics2", cfg_text(maxn=2, maxn2=3, maxlen=1, metrickinds=("wlev",), pseudos="P0", edgemax=3, maxedges=3)),
                ("two", cfg_text(maxn=2, maxn2=2, maxlen=1, edgemax=2, pseudos="P3")),
                ("sample", cfg_text(maxn=3, maxlen=2, edgemax=2, maxedges=3, pseudos="P0", maxseqs=(2,))),
                ("tcr", cfg_text(maxn=2, maxlen=1, edgemax=2, pseudos="P0", elemkinds=("A", "B", "AB")))]
    return [("str", cfg_text(maxn=4, maxlen=2, edgemax=3, maxedges=4)),
            ("metrics", cfg_text(maxn=3, maxlen=2, metrickinds=("wlev", "lendiff"), pseudos="P3")),
            ("metrics2", cfg_text(maxn=2, maxn2=3, maxlen=2, metrickinds=("wlev", "lendiff"), pseudos="P0", edgemax=4, maxedges=3)),
            ("metrics3", cfg_text(maxn=1, maxn2=4, maxlen=2, metrickinds=("wlev",), pseudos="P0", edgemax=3, maxedges=3)),
            ("two", cfg_text(maxn=3, maxn2=2, maxlen=1, edgemax=3, pseudos="P3")),
            ("two2", cfg_text(maxn=2, maxn2=2, maxlen=2, edgemax=3, pseudos="P0")),
            ("sample", cfg_text(maxn=4, maxn2=0, maxlen=2, edgemax=2, maxedges=3, pseudos="P0", maxseqs=(2, 3))),
            ("sample2", cfg_text(maxn=3, maxn2=3, maxlen=1, edgemax=2, maxedges=3, pseudos="P0", maxseqs=(2,))),
            ("tcr", cfg_text(maxn=3, maxn2=0, maxlen=1, edgemax=3, pseudos="P3", elemkinds=("A", "B", "AB"))),
            ("tcr2", cfg_text(maxn=2, maxn2=2, maxlen=1, edgemax=2, pseudos="P0", elemkinds=("A", "B", "AB")))]


# ---------------------------------------------------------------- concrete arguments

def make_metric(mk):
    from pyrepseq.metric import Metric, WeightedLevenshtein
    if mk == "default":
        return None
    if mk == "wlev":
        return WeightedLevenshtein(2, 1, 3)

    class LenDiff(Metric):
        name = "LenDiff"

        def calc_cdist_matrix(self, anchors, comparisons):
            return np.array([[abs(len(a) - len(b)) for b in comparisons] for a in anchors])

        def calc_pdist_vector(self, instances):
            xs = list(instances)
            return np.array([abs(len(xs[i]) - len(xs[j])) for i in range(len(xs)) for j in range(i + 1, len(xs))])
    return LenDiff()


def make_coll(ek, elems, letters, variant):
    import pandas as pd
    if not elems:
        return None
    if ek == "str":
        strs = [nc.dec(e, letters) for e in elems]
        # (the fourth form: index labels repeated, as after pd.concat of several samples without ignore_index)
        return [list(strs), np.array(strs, dtype=object), pd.Series(strs, index=[3 * i + 2 for i in range(len(strs))], dtype=object),
                pd.Series(strs, index=[i % 2 for i in range(len(strs))], dtype=object)][variant % 4]
    a = ["C" + nc.dec(e[0], letters) + "F" for e in elems]
    b = ["C" + nc.dec(e[1], letters) + "W" for e in elems]
    n = len(elems)
    if ek == "AB" and variant % 3 == 2:
        return (a, b)                                        # legacy tuple form
    cols = {}
    if ek in ("A", "AB"):
        cols["TRAV"] = ["TRAV1-1*01"] * n
        cols["CDR3A"] = a
    if ek in ("B", "AB"):
        cols["TRBV"] = ["TRBV2*01"] * n
        cols["CDR3B"] = b
    order = list(cols)
    if variant % 4 >= 2:
        order = order[::-1]                                 # CDR3B before CDR3A, V columns after: columns are found by name
    df = pd.DataFrame({c: cols[c] for c in order})
    if variant % 2:
        df.index = [f"t{i}" for i in range(n)][::-1]
    if variant % 6 == 3:
        df.index = [f"sample{i % 2}" for i in range(n)]      # repeated row labels
    return df


def call_pcdelta(inp, letters, variant, seed=None):
    import pyrepseq as prs
    seqs = make_coll(inp["ek"], inp["seqs"], letters, variant)
    seqs2 = make_coll(inp["ek"], inp["seqs2"], letters, variant) if inp["two"] else None
    if inp["edges"] == []:
        if seed is not None:
            np.random.seed(seed)
        return np.atleast_1d(prs.pcDelta(seqs, seqs2, bins=0, **({"maxseqs": inp["ms"]} if inp["ms"] else {})))
    kw = dict(bins=(np.array(inp["edges"]) if variant % 2 else list(inp["edges"])), normalize=inp["norm"])
    if inp["edges"] == list(range(0, 25)):
        kw.pop("bins")                          # rely on the documented default
    if inp["c"][0]:
        kw["pseudocount"] = inp["c"][0] / inp["c"][1]
    if inp["ms"]:
        kw["maxseqs"] = inp["ms"]
    m = make_metric(inp["mk"])
    if m is not None:
        kw["metric"] = m
    if seed is not None:
        np.random.seed(seed)
    return np.asarray(prs.pcDelta(seqs, seqs2, **kw))


def matches(got, want):
    if len(got) != len(want):
        return False
    return all(estim.close(g, w) for g, w in zip(got, want))


def describe(inp, letters):
    def show(e):
        return nc.dec(e, letters) if inp["ek"] == "str" else (nc.dec(e[0], letters), nc.dec(e[1], letters))
    return (f"pcDelta({[show(e) for e in inp['seqs']]}{', ' + str([show(e) for e in inp['seqs2']]) if inp['two'] else ''}, kind={inp['ek']}, "
            f"metric={inp['mk']}, bins={inp['edges'] or 0}, normalize={inp['norm']}, pseudocount={inp['c'][0]}/{inp['c'][1]}, maxseqs={inp['ms'] or None})")


def replay_group(ctx, docs, n):
    """docs: all behaviours of one input (several when down-sampling is nondeterministic)."""
    inp = docs[0]["inp"]
    letters = ("AC", "GY")[n % 2]
    allowed = [d["res"] for d in docs]
    rp = dict(kind="replay", docs=docs, letters=letters)
    sampling = bool(inp["ms"]) and (len(inp["seqs"]) > inp["ms"] or (inp["two"] and len(inp["seqs2"]) > inp["ms"]))
    variants = [n % 6, (n + 1) % 6] if inp["ek"] != "str" else [n % 4]
    for variant in variants:
        for seed in ((n, n + 1, n + 2) if sampling else (None,)):
            ctx.case(dict(call=describe(inp, letters), variant=variant, seed=seed, allowed_outcomes=len(allowed)),
                     nontrivial=any(h for d in docs for h in d["hist"]) or inp["edges"] == [])
            try:
                got = call_pcdelta(inp, letters, variant, seed)
            except Exception as e:      # noqa: BLE001
                ctx.violation(f"pcDelta/{inp['ek']}/{inp['mk']}/raised", f"{describe(inp, letters)} raised {type(e).__name__}: {e}"[:500], rp)
                return
            if not any(matches(got.tolist(), w) for w in allowed):
                what = "not_a_subsample_result" if sampling else "bin_wrong"
                ctx.violation(f"pcDelta/{inp['ek']}/{inp['mk']}/{'two' if inp['two'] else 'self'}/{what}",
                              f"{describe(inp, letters)} = {got.tolist()} want {'one of ' if sampling else ''}{[[f'{a}/{b}' for a, b in w] for w in allowed[:4]]}"[:600], rp)
                return


# ---------------------------------------------------------------- code -> spec

def make_sessions(ctx, n):
    import pyrepseq as prs
    out = []
    amap = {c: i for i, c in enumerate(nc.AA)}
    for sid in range(1, n + 1):
        typ = sid % 5
        if typ == 0:
            # down-sampling: total number of pairs
            N = ctx.rng.randint(2, 30)
            ms = ctx.rng.choice([0, 2, 5, 10, 40])
            seqs = nc.repertoire(ctx.rng, N, maxlen=10)
            if sid % 2:
                seqs = sorted(set(seqs)) + [f"CAS{i}" for i in range(3)]       # all distinct
                N = len(seqs)
            two = ctx.rng.random() < 0.4
            seqs2 = nc.repertoire(ctx.rng, ctx.rng.randint(1, 30), maxlen=10) if two else None
            ev = dict(op="Sampled", raised=False, n=N, n2=len(seqs2) if two else 0, ms=ms, total=-1, zero=0, distinct=False)
            try:
                np.random.seed(sid)
                h = prs.pcDelta(seqs, seqs2, bins=[0, 1, 1000], normalize=False, maxseqs=ms or None)
                ev["total"] = int(np.sum(h))
                ev["zero"] = int(h[0])
                ev["distinct"] = (len(set(seqs)) == len(seqs)) and not two
            except Exception as e:      # noqa: BLE001
                ev.update(raised=True, exc=f"{type(e).__name__}: {e}"[:200])
            out.append(dict(sid=sid, inp=dict(ek="str", seqs=[[0], [0]], two=False, seqs2=[], mk="default", edges=[0, 1], norm=False, c=[0, 1], ms=0), events=[ev]))
            continue
        ek = ("str", "str", "AB", "A", "B")[typ]
        N = ctx.rng.randint(2, 24)
        k = ctx.rng.randint(1, 3)
        if ek == "str":
            seqs = [nc.enc(x, amap) for x in nc.repertoire(ctx.rng, N, maxmut=k, maxlen=12)]
            seqs2 = [nc.enc(x, amap) for x in nc.repertoire(ctx.rng, ctx.rng.randint(1, 12), maxmut=k, maxlen=12)] if sid % 3 == 0 else []
        else:
            ra, rb = nc.repertoire(ctx.rng, N, maxmut=k, maxlen=9), nc.repertoire(ctx.rng, N, maxmut=k, maxlen=9)
            seqs = [[nc.enc(a, amap), nc.enc(b, amap)] for a, b in zip(ra, rb)]
            seqs2 = []
            if sid % 3 == 0:
                M = ctx.rng.randint(1, 8)
                seqs2 = [[nc.enc(a, amap), nc.enc(b, amap)] for a, b in zip(nc.repertoire(ctx.rng, M, maxlen=9), nc.repertoire(ctx.rng, M, maxlen=9))]
        ne = ctx.rng.randint(2, 8)
        edges = sorted(ctx.rng.sample(range(0, 14), ne))
        if sid % 7 == 3:
            edges = list(range(0, 25))          # the default bins (bins=None)
        norm = ctx.rng.random() < 0.7
        c = ctx.rng.choice([[0, 1], [0, 1], [1, 2], [1, 1]]) if norm else [0, 1]
        inp = dict(ek=ek, seqs=seqs, two=bool(seqs2), seqs2=seqs2, mk="default", edges=edges, norm=norm, c=c, ms=0)
        ev = dict(op="Call", raised=False, ret=[], special=[])
        try:
            got = call_pcdelta(inp, nc.AA, sid).tolist()
            for g in got:
                r, sp = ratio.snap(g)
                ev["ret"].append(r)
                ev["special"].append(sp)
        except Exception as e:      # noqa: BLE001
            ev.update(raised=True, exc=f"{type(e).__name__}: {e}"[:200])
        out.append(dict(sid=sid, inp=inp, events=[ev]))
    return out


TRACE_CONSTS = ("  Letters = {0}\n  MaxLen = 0\n  MaxN = 2\n  MaxN2 = 0\n  EdgeMax = 1\n  MaxEdges = 2\n  Pseudos = {}\n  ElemKinds = {\"str\"}\n"
                "  MetricKinds = {\"default\"}\n  MaxSeqs = {0}\n  Mutations = {}")


def _replay_item(ctx, i, item):
    replay_group(ctx, item[1], item[0])
    ctx.traces += len(item[1])


def run(ctx):
    import pyrepseq as prs
    ctx.rule = ("PcDelta.tla (ShortCircuit | Downsample (nondeterministic), ChooseMetric, Distances, Histogram with NumPy's half-open / last-closed "
                "bins, Normalise with pseudocount) is model-checked for all small collections (strings and TCR rows with CDR3A / CDR3B / both), "
                "second collections, increasing edge vectors, pseudocounts and maxseqs (CountsExact, ZeroBin, SampleSize, NormalisedSumsToOne, "
                "DefaultMetricTable). Every terminal behaviour is executed on pcDelta (for maxseqs: under several seeds, the result must be "
                "one of the outcomes TLC enumerated); random repertoires / tables, sample-size sessions and load_pcDelta_background are "
                "validated by TracePcDelta.tla. Non-trivial = at least one pair falls into a bin.")
    ctx.assumptions = ["TCR rows are modelled by their CDR3 strings only (the default metrics are the CDR3 Levenshtein family)",
                       "floats snapped to rationals (denominators <= 2*#pairs + 2)"]
    n = 0
    runs = model_runs(ctx.quick)
    results = ctx.mc_batch("MCPcDelta", [(name, text, None) for name, text in runs], parallel=4, workers=4, timeout=1500 if ctx.quick else 2700)
    for name, text in runs:
        res = results[name]
        groups = {}
        for doc in res.printed:
            if "inp" in doc:
                groups.setdefault(json.dumps(doc["inp"], sort_keys=True), []).append(doc)
        res.printed = []
        items = []
        for docs in ctx.sample(list(groups.values()), 40000, "inputs"):
            n += 1
            items.append((n, docs))
        ctx.parallel(items, _replay_item)
    ctx.exhaustive = True
    sessions = make_sessions(ctx, 40 if ctx.quick else 400)
    # long strings: homopolymers of up to 400 letters (distances beyond 255), one- and two-collection forms
    from pyrepseq.metric import Levenshtein, WeightedLevenshtein
    for r in range(6 if ctx.quick else 40):
        def homo():
            return [ctx.rng.choice(nc.AA), ctx.rng.choice([0, 1, 3, 13, 200, 260, 300, 400])]
        x = [homo() for _ in range(ctx.rng.randint(2, 5))]
        y = [homo() for _ in range(ctx.rng.randint(1, 4))] if r % 2 else []
        edges = sorted(ctx.rng.sample([0, 1, 2, 3, 4, 5, 10, 50, 100, 255, 256, 257, 300, 399, 400, 500], ctx.rng.randint(2, 7)))
        ev = dict(op="Homo", x=[[nc.AA.index(a), n_] for a, n_ in x], y=[[nc.AA.index(a), n_] for a, n_ in y], edges=edges, raised=False, hist=[])
        try:
            metric = [None, Levenshtein(), WeightedLevenshtein(1, 1, 1)][r % 3]
            h = prs.pcDelta([a * n_ for a, n_ in x], [a * n_ for a, n_ in y] if y else None, bins=edges, normalize=False, **({"metric": metric} if metric else {}))
            ev["hist"] = [int(v) for v in h]
        except Exception as e:      # noqa: BLE001
            ev.update(raised=True, exc=f"{type(e).__name__}: {e}"[:200])
        sessions.append(dict(sid=8000 + r, inp=sessions[0]["inp"], events=[ev]))
    # large collections: copies of a few distinct strings (counts follow from the distances of the distinct strings)
    amap = {c: i for i, c in enumerate(nc.AA)}
    for r in range(4 if ctx.quick else 24):
        m = ctx.rng.randint(4, 8)
        u = []
        while len(u) < m:
            for s_ in nc.repertoire(ctx.rng, m, maxmut=2, maxlen=10, families=2, short=1):
                if s_ not in u and len(u) < m:
                    u.append(s_)
        two = r % 2 == 1
        from .. import lifted as lf
        big = lf.boundary_size(r + ctx.seed)
        mx = [1 + c for c in np.random.RandomState(r).multinomial(big - m, [1.0 / m] * m).tolist()]
        my = [int(c) for c in np.random.RandomState(100 + r).multinomial(ctx.rng.choice([40, 700]), [1.0 / m] * m).tolist()] if two else [0] * m
        x = [s_ for s_, c in zip(u, mx) for _ in range(c)]
        y = [s_ for s_, c in zip(u, my) for _ in range(c)]
        ctx.rng.shuffle(x)
        ctx.rng.shuffle(y)
        edges = sorted(ctx.rng.sample(range(0, 12), ctx.rng.randint(2, 6))) if r % 4 < 2 else list(range(0, 25))
        ev = dict(op="Big", u=[nc.enc(s_, amap) for s_ in u], mx=mx, my=my, edges=edges, raised=False, hist=[])
        try:
            kw = {} if (edges == list(range(0, 25)) and r % 8 >= 4) else dict(bins=edges)
            h = prs.pcDelta(np.array(x) if r % 3 == 0 else x, (y if two else None), normalize=False, **kw)
            ev["hist"] = [int(v) for v in h]
        except Exception as e:      # noqa: BLE001
            ev.update(raised=True, exc=f"{type(e).__name__}: {e}"[:200])
        sessions.append(dict(sid=8500 + r, inp=sessions[0]["inp"], events=[ev]))
    # bundled background table
    ev = dict(op="Background", index=[], bins=[], nrows=-1, pcdelta_len=-1)
    try:
        back, bins = prs.load_pcDelta_background()
        only = prs.load_pcDelta_background(return_bins=False)
        if not only.equals(back):
            ev["nrows"] = -2                                  # the table alone must be the same table
        ev.update(index=[int(i) for i in back.index], bins=[int(b) for b in bins], nrows=int(len(back)),
                  pcdelta_len=int(len(prs.pcDelta(["CASSF", "CASSY", "CAWF"], bins=bins))))
    except Exception as e:      # noqa: BLE001
        ev.update(exc=f"{type(e).__name__}: {e}"[:200])
    sessions.append(dict(sid=9000, inp=sessions[0]["inp"], events=[ev]))
    verd = tcm.validate(ctx, "TracePcDelta", sessions, constants=TRACE_CONSTS, invariants=("CountsExact", "ZeroBin", "SampleSize"))
    for s in sessions:
        ctx.traces += 1
        e0 = s["events"][0]
        ctx.case(dict(kind="session:" + e0["op"], ek=s["inp"]["ek"], n=len(s["inp"]["seqs"]), edges=s["inp"]["edges"], ev={k: v for k, v in e0.items() if k in ("n", "n2", "ms", "total", "nrows")}), nontrivial=True)
        for l, op, clause in tcm.failures(verd[s["sid"]]):
            ctx.violation(f"pcDelta/session/{op}/{clause}", f"pcDelta session {op}: {clause}; event {json.dumps(e0)[:300]}", dict(kind="session", session=s))
    # corrupted trace
    good = next((s for s in sessions if s["events"][0]["op"] == "Call" and s["events"][0]["ret"] and not s["events"][0]["raised"]), None)
    if good:
        c = copy.deepcopy(good)
        c["sid"] = 990001
        r = c["events"][0]["ret"][0]
        c["events"][0]["ret"][0] = [r[0] + 1, r[1] + (0 if r[1] else 1)]
        c["events"][0]["special"][0] = ""
        v = tcm.validate(ctx, "TracePcDelta", [c], constants=TRACE_CONSTS, count=False)
        ok = any(cl == "bin_wrong" for _, _, cl in tcm.failures(v[c["sid"]]))
        ctx.negative.append(dict(kind="corrupted_trace", corruption="bin", rejected=ok))
        if not ok:
            raise MachineryFailure("corrupted pcDelta trace accepted")
    bigs = [s for s in sessions if s["events"][0]["op"] == "Big" and s["events"][0]["hist"] and not s["events"][0]["raised"]]
    if bigs:
        c = copy.deepcopy(bigs[0])
        c["sid"] = 990002
        h = c["events"][0]["hist"]
        k = max(range(len(h)), key=lambda i: h[i])
        h[k] -= 1                     # one pair of copies lost
        v = tcm.validate(ctx, "TracePcDelta", [c], constants=TRACE_CONSTS, count=False)
        ok = any(cl == "large_input_bin_wrong" for _, _, cl in tcm.failures(v[c["sid"]]))
        ctx.negative.append(dict(kind="corrupted_trace", corruption="large_input_bin", rejected=ok))
        if not ok:
            raise MachineryFailure("corrupted large-input pcDelta trace accepted")
    run_cfg(ctx, "NEG_square", cfg_text(maxn=2, maxlen=1, pseudos="P0", mutations=["full_square"], invs=("CountsExact",), emit=False),
            expect_violation=["CountsExact"], workers=4)
    run_cfg(ctx, "NEG_swapAB", cfg_text(maxn=2, maxlen=1, pseudos="P0", elemkinds=("A", "B"), mutations=["swap_default_AB"], invs=("DefaultMetricTable",), emit=False),
            expect_violation=["DefaultMetricTable"], workers=4)


def replay(doc):
    from ..core import Ctx
    ctx = Ctx("C05", "quick", 0)
    ctx._known = []
    r = doc["replay"]
    if r.get("kind") == "replay":
        for n in range(4):
            replay_group(ctx, r["docs"], n)
        return 1 if ctx.violations else 0
    print("re-run ./check C05 (sessions are regenerated from the seed)")
    return 1
