"""C12 - one-edit neighbourhood generators and the set utilities on them are exact."""
from __future__ import annotations

import copy
import os
import shutil
import tempfile

import numpy as np

from .. import nncommon as nc
from .. import tracecommon as tcm
from ..core import MachineryFailure

INV = ["GenExact", "GenOnce", "HGenExact", "NbrIsDist1", "NndExact", "NnnExact", "UtilExact"]


def cfg_text(alpha, maxlen, kinds, refmaxlen=0, refmaxsize=0, maxdistance=1, mutations=(), emit=True, invs=INV):
    t = "SPECIFICATION Spec\nCONSTANTS\n"
    t += f"  Alpha <- {alpha}\n  MaxLen = {maxlen}\n  RefMaxLen = {refmaxlen}\n  RefMaxSize = {refmaxsize}\n  MaxDistance = {maxdistance}\n"
    t += "  Kinds = {" + ", ".join(f'"{k}"' for k in kinds) + "}\n"
    t += "  Mutations = {" + ", ".join(f'"{k}"' for k in mutations) + "}\n"
    for i in invs:
        t += f"INVARIANT {i}\n"
    if emit:
        t += "INVARIANT EmitCase\n"
    return t


def run_cfg(ctx, name, text, expect_violation=None, workers=16):
    d = tempfile.mkdtemp(prefix="pvcfg_")
    try:
        p = os.path.join(d, name + ".cfg")
        with open(p, "w") as f:
            f.write(text)
        return ctx.mc("MCNeighborhood", p, workers=workers, expect_violation=expect_violation)
    finally:
        shutil.rmtree(d, ignore_errors=True)


LETTERSETS = {1: ["A", "x"], 2: ["AC", "WY", "ba"], 3: ["ACD", "YWV"], 4: ["ACDE", "TGCA"]}


def model_runs(quick):
    if quick:
        return [("gen1", cfg_text("Alpha1", 5, ["gen", "hgen"])),
                ("gen2", cfg_text("Alpha2", 5, ["gen", "hgen"])),
                ("gen2b", cfg_text("Alpha2b", 4, ["gen"])),
                ("gen3", cfg_text("Alpha3", 4, ["gen", "hgen"])),
                ("gen4", cfg_text("Alpha4", 3, ["gen", "hgen"])),
                ("nnn2", cfg_text("Alpha2", 3, ["nnn"], maxdistance=3)),
                ("util2", cfg_text("Alpha2", 3, ["util"], refmaxlen=3, refmaxsize=3)),
                ("nnd2", cfg_text("Alpha2", 4, ["nnd"], refmaxlen=4, refmaxsize=1)),
                ("nnd2b", cfg_text("Alpha2", 3, ["nnd"], refmaxlen=3, refmaxsize=2))]
    return [("gen1", cfg_text("Alpha1", 6, ["gen", "hgen"])),
            ("gen2", cfg_text("Alpha2", 6, ["gen", "hgen"])),
            ("gen2b", cfg_text("Alpha2b", 5, ["gen"])),
            ("gen3", cfg_text("Alpha3", 4, ["gen", "hgen"])),
            ("gen4", cfg_text("Alpha4", 4, ["gen", "hgen"])),
            ("nnn2", cfg_text("Alpha2", 4, ["nnn"], maxdistance=3)),
            ("nnn3", cfg_text("Alpha3", 3, ["nnn"], maxdistance=2)),
            ("util2", cfg_text("Alpha2", 3, ["util"], refmaxlen=3, refmaxsize=4)),
            ("util3", cfg_text("Alpha3", 2, ["util"], refmaxlen=2, refmaxsize=3)),
            ("nnd2", cfg_text("Alpha2", 4, ["nnd"], refmaxlen=4, refmaxsize=2)),
            ("nnd3", cfg_text("Alpha3", 3, ["nnd"], refmaxlen=3, refmaxsize=2))]


_VP = [0]


def S(codes, letters):
    return "".join(letters[c] for c in codes)


def replay_doc(ctx, doc, letters):
    import pyrepseq.distance as D
    kind = doc["kind"]
    alpha = "".join(letters[c] for c in doc["alpha"])
    x = S(doc["x"], letters)

    def viol(key, what):
        ctx.violation(key, what, dict(kind="replay", doc=doc, letters=letters))
    try:
        if kind == "gen":
            got = list(D.levenshtein_neighbors(x, alpha))
            want = [S(y, letters) for y in doc["out"]]
            ctx.case(dict(fn="levenshtein_neighbors", x=x, alphabet=alpha, n=len(want)), nontrivial=len(set(x)) < len(x) or len(x) == 0)
            if sorted(got) != sorted(want):
                cl = "duplicate_yield" if len(got) != len(set(got)) else ("missing_neighbour" if set(want) - set(got) else "spurious_neighbour")
                viol(f"levenshtein_neighbors/{cl}", f"levenshtein_neighbors({x!r}, {alpha!r}) -> {sorted(got)} want {sorted(want)}"[:500])
            elif got != want:
                ctx.extra["order_drift"] = ctx.extra.get("order_drift", 0) + 1
        elif kind == "hgen":
            vp = [p - 1 for p in doc["vpos"]]
            full = len(vp) == len(x)
            # "iterable of positions": list, tuple, array, set, range-like and single-pass iterables (generator, iterator)
            _VP[0] += 1
            form = ("list", "tuple", "generator", "ndarray", "iterator", "set", "map")[_VP[0] % 7]
            vpo = {"list": lambda: list(vp), "tuple": lambda: tuple(vp), "generator": lambda: (p for p in vp), "ndarray": lambda: np.array(vp, dtype=int),
                   "iterator": lambda: iter(list(vp)), "set": lambda: set(vp), "map": lambda: map(int, vp)}[form]()
            if form == "ndarray" and len(vp) == 0:
                vpo = list(vp)
            got = list(D.hamming_neighbors(x, alpha, variable_positions=None if (full and len(x) % 2) else vpo))
            want = [S(y, letters) for y in doc["out"]]
            ctx.case(dict(fn="hamming_neighbors", x=x, alphabet=alpha, variable_positions=vp), nontrivial=len(x) > 0)
            if sorted(got) != sorted(want):
                cl = "duplicate_yield" if len(got) != len(set(got)) else ("missing_neighbour" if set(want) - set(got) else "spurious_neighbour")
                viol(f"hamming_neighbors/{cl}", f"hamming_neighbors({x!r}, {alpha!r}, variable_positions={form} of {vp}) -> {sorted(got)} want {sorted(want)}"[:500])
        elif kind == "nnn":
            for ham, key in ((False, "lev"), (True, "ham")):
                nb = (lambda y: D.hamming_neighbors(y, alpha)) if ham else (lambda y: D.levenshtein_neighbors(y, alpha))
                got = D.next_nearest_neighbors(x, nb, maxdistance=doc["md"])
                want = {S(y, letters) for y in doc[key]}
                ctx.case(dict(fn="next_nearest_neighbors", x=x, alphabet=alpha, maxdistance=doc["md"], hamming=ham, n=len(want)), nontrivial=len(want) > 0)
                if set(got) != want or not isinstance(got, set):
                    viol(f"next_nearest_neighbors/{key}/differs", f"next_nearest_neighbors({x!r}, {key}, maxdistance={doc['md']}): extra {sorted(set(got)-want)[:5]} missing {sorted(want-set(got))[:5]}")
        elif kind == "nnd":
            if set(alpha) <= set(nc.AA):
                ref = {S(r, letters) for r in doc["ref"]}
                got = D.nndist_hamming(x, ref, maxdist=doc["md"])
                ctx.case(dict(fn="nndist_hamming", seq=x, reference=sorted(ref), maxdist=doc["md"], want=doc["ret"]), nontrivial=doc["ret"] not in (0, doc["md"]))
                if got != doc["ret"]:
                    viol("nndist_hamming/wrong_distance", f"nndist_hamming({x!r}, {sorted(ref)}, maxdist={doc['md']}) = {got} want {doc['ret']}")
        elif kind == "util":
            ref = sorted(S(r, letters) for r in doc["ref"])
            for ham, suffix in ((False, "lev"), (True, "ham")):
                nb = (lambda y: D.hamming_neighbors(y, alpha)) if ham else (lambda y: D.levenshtein_neighbors(y, alpha))
                want_pairs = sorted(tuple(sorted(S(a, letters) for a in p)) for p in doc["pairs_" + suffix])
                got_pairs = D.find_neighbor_pairs(ref, neighborhood=nb)
                ctx.case(dict(fn="find_neighbor_pairs", seqs=ref, hamming=ham, alphabet=alpha, n=len(want_pairs)), nontrivial=len(want_pairs) > 0)
                if sorted(tuple(sorted(p)) for p in got_pairs) != want_pairs:
                    viol(f"find_neighbor_pairs/{suffix}/differs", f"find_neighbor_pairs({ref}, {suffix}) = {got_pairs} want {want_pairs}"[:500])
                # repeated sequences in the list (in every order): each unordered pair of DISTINCT sequences is still listed once
                for dup in (ref + ref, sorted(ref + ref), ref[::-1] + ref, [ref[0]] * 3 + ref[1:] if ref else []):
                    got_d = D.find_neighbor_pairs(dup, neighborhood=nb)
                    if sorted(tuple(sorted(p)) for p in got_d) != want_pairs:
                        viol(f"find_neighbor_pairs/{suffix}/differs_with_repeated_sequences", f"find_neighbor_pairs({dup}, {suffix}) = {got_d} want {want_pairs}"[:500])
                        break
                as_set = set(ref)
                again1 = D.find_neighbor_pairs(as_set, neighborhood=nb)
                again2 = D.find_neighbor_pairs(as_set, neighborhood=nb)
                if as_set != set(ref):
                    viol(f"find_neighbor_pairs/{suffix}/argument_mutated", f"find_neighbor_pairs(set {ref}) changed its argument to {sorted(as_set)}")
                elif sorted(tuple(sorted(p)) for p in again1) != want_pairs or sorted(tuple(sorted(p)) for p in again2) != want_pairs:
                    viol(f"find_neighbor_pairs/{suffix}/differs_on_set_or_repeat", f"find_neighbor_pairs(set {ref}) = {again1}, repeated {again2}, want {want_pairs}"[:500])
                got_idx = D.find_neighbor_pairs_index(ref, neighborhood=nb)
                want_idx = sorted({(ref.index(a), ref.index(b)) for a, b in want_pairs} | {(ref.index(b), ref.index(a)) for a, b in want_pairs})
                if sorted(got_idx) != want_idx:
                    viol(f"find_neighbor_pairs_index/{suffix}/differs", f"find_neighbor_pairs_index({ref}, {suffix}) = {sorted(got_idx)} want {want_idx}"[:500])
                num = D.calculate_neighbor_numbers([x], reference=set(ref), neighborhood=nb)
                if int(num[0]) != doc["num_" + suffix]:
                    viol(f"calculate_neighbor_numbers/{suffix}/differs", f"calculate_neighbor_numbers([{x!r}], {ref}, {suffix}) = {num} want {doc['num_' + suffix]}")
                isd = D.isdist1(x, set(ref), neighborhood=nb)
                if bool(isd) != doc["isd1_" + suffix]:
                    viol(f"isdist1/{suffix}/differs", f"isdist1({x!r}, {ref}, {suffix}) = {isd} want {doc['isd1_' + suffix]}")
                ctx.evaluations += 3
    except Exception as e:     # noqa: BLE001
        viol(f"{kind}/raised", f"{kind} case raised {type(e).__name__}: {e}; doc={doc}"[:500])


def sessions_for(ctx, n):
    """code -> spec: random CDR3s over the full 20-letter alphabet (default arguments of the functions)."""
    import pyrepseq.distance as D
    out = []
    sid = 0
    for r in range(n):
        sid += 1
        kind = ("gen", "hgen", "nnd", "util")[r % 4]
        x = "".join(ctx.rng.choice(nc.AA) for _ in range(ctx.rng.randint(4, 14 if kind != "gen" else 10)))
        if r % 7 == 0:
            x = x[:2] + x[1] * 3 + x[2:]            # runs of repeated letters
        base = dict(sid=sid, kind=kind, x=nc.enc(x), ref=[], md=0, vpos=list(range(1, len(x) + 1)))
        if kind == "gen":
            ys, raised = [], False
            try:
                ys = [nc.enc(y) for y in D.levenshtein_neighbors(x)]
            except Exception:     # noqa: BLE001
                raised = True
            base["events"] = [dict(op="Gen", raised=raised, yields=ys)]
        elif kind == "hgen":
            vp = sorted(ctx.rng.sample(range(len(x)), ctx.rng.randint(0, len(x))))
            base["vpos"] = [p + 1 for p in vp]
            ys, raised = [], False
            try:
                ys = [nc.enc(y) for y in D.hamming_neighbors(x, variable_positions=vp)]
            except Exception:     # noqa: BLE001
                raised = True
            base["events"] = [dict(op="Gen", raised=raised, yields=ys)]
        elif kind == "nnd":
            d = ctx.rng.randint(0, 5)
            ref = set()
            for _ in range(ctx.rng.randint(1, 6)):
                y = list(x)
                for p in ctx.rng.sample(range(len(x)), min(len(x), ctx.rng.randint(d, d + 2))):
                    y[p] = ctx.rng.choice([c for c in nc.AA if c != x[p]])
                ref.add("".join(y))
            ref.add(x[:-1])
            md = ctx.rng.randint(1, 4)
            ret, raised = -1, False
            try:
                ret = int(D.nndist_hamming(x, ref, maxdist=md))
            except Exception:     # noqa: BLE001
                raised = True
            base.update(ref=[nc.enc(y) for y in sorted(ref)], md=md)
            base["events"] = [dict(op="Nnd", raised=raised, ret=ret)]
        else:
            ref = sorted(set(nc.repertoire(ctx.rng, ctx.rng.randint(5, 18), minlen=5, maxlen=9, maxmut=1, families=2, short=0) + [x]))
            ham = bool(r % 8 < 4)
            nb = D.hamming_neighbors if ham else D.levenshtein_neighbors
            evs = []
            try:
                pairs = D.find_neighbor_pairs(ref, neighborhood=nb)
                evs.append(dict(op="Util", fn="find_neighbor_pairs", ham=ham, raised=False, ret=[[nc.enc(a), nc.enc(b)] for a, b in pairs]))
                evs.append(dict(op="Util", fn="calculate_neighbor_numbers", ham=ham, raised=False,
                                ret=int(D.calculate_neighbor_numbers([x], reference=set(ref), neighborhood=nb)[0])))
                evs.append(dict(op="Util", fn="isdist1", ham=ham, raised=False, ret=bool(D.isdist1(x, set(ref), neighborhood=nb))))
            except Exception:     # noqa: BLE001
                evs.append(dict(op="Util", fn="find_neighbor_pairs", ham=ham, raised=True, ret=[]))
            base.update(ref=[nc.enc(y) for y in ref])
            base["events"] = evs
        base["desc"] = dict(kind=kind, x=x)
        out.append(base)
    # the complete one-edit neighbourhood of a 7-9 letter string over 20 letters as reference: 290-370 distance-1 partners
    for r in range(2):
        sid += 1
        x = "".join(ctx.rng.choice(nc.AA) for _ in range(7 + r))
        nb = set()
        for i in range(len(x) + 1):
            for a in nc.AA:
                nb.add(x[:i] + a + x[i:])
                if i < len(x):
                    nb.add(x[:i] + a + x[i + 1:])
            if i < len(x):
                nb.add(x[:i] + x[i + 1:])
        nb.discard(x)
        ref = sorted(nb) + [nc.mutate(ctx.rng, x, 3) for _ in range(5)]
        evs = []
        for ham in (False, True):
            nbf = D.hamming_neighbors if ham else D.levenshtein_neighbors
            try:
                evs.append(dict(op="Util", fn="calculate_neighbor_numbers", ham=ham, raised=False,
                                ret=int(D.calculate_neighbor_numbers([x], reference=set(ref), neighborhood=nbf)[0])))
            except Exception:     # noqa: BLE001
                evs.append(dict(op="Util", fn="calculate_neighbor_numbers", ham=ham, raised=True, ret=-1))
        out.append(dict(sid=sid, kind="util", x=nc.enc(x), ref=[nc.enc(y) for y in ref], md=0, vpos=list(range(1, len(x) + 1)), events=evs,
                        desc=dict(kind="util/full-neighbourhood", x=x)))
    return out


TRACE_CONSTS = "  Alpha <- Alpha20\n  MaxLen = 0\n  RefMaxLen = 0\n  RefMaxSize = 0\n  MaxDistance = 1\n  Kinds = {\"gen\"}\n  Mutations = {}"


def run(ctx):
    ctx.rule = ("Neighborhood.tla: generator loop machines (one action per loop iteration with the three skip rules), nndist_hamming "
                "cascade and the utilities are model-checked for all strings up to a length bound on alphabets of 1-4 letters and all "
                "small reference sets against distance-based definitions. spec->code: every terminal behaviour is executed on the real "
                "functions under several concrete alphabets; code->spec: random CDR3s with the default 20-letter alphabet validated by "
                "TraceNeighborhood.tla. Non-trivial = string with repeated letters / non-empty result.")
    ctx.assumptions = ["Strings.tla Lev/Ham are the oracle; on the 20-letter alphabet the generator output is compared with the constructive "
                       "neighbourhood sets, which TLC shows equal to {y : Lev(x,y)=1} on the small universes"]
    for name, text in model_runs(ctx.quick):
        res = run_cfg(ctx, name, text)
        na = {"Alpha1": 1, "Alpha2": 2, "Alpha2b": 2, "Alpha3": 3, "Alpha4": 4}[text.split("Alpha <- ")[1].split()[0]]
        for doc in ctx.sample([d for d in res.printed if "kind" in d], 60000):
            if "kind" not in doc:
                continue
            sets = LETTERSETS[na]
            if doc["kind"] in ("nnd", "util") and ctx.quick:
                sets = sets[:1]
            for letters in sets:
                replay_doc(ctx, doc, letters)
            ctx.traces += 1
    ctx.exhaustive = True
    sessions = sessions_for(ctx, 40 if ctx.quick else 400)
    verd = tcm.validate(ctx, "TraceNeighborhood", [{k: v for k, v in s.items() if k != "desc"} for s in sessions], constants=TRACE_CONSTS,
                        invariants=("GenIsConstructive", "HGenIsConstructive", "NndExact"))
    for s in sessions:
        ctx.traces += 1
        ctx.case(dict(session=s["desc"], events=[e.get("fn", e["op"]) for e in s["events"]]), nontrivial=True)
        for l, op, clause in tcm.failures(verd[s["sid"]]):
            if clause == "order_differs":
                ctx.extra["order_drift"] = ctx.extra.get("order_drift", 0) + 1
                continue
            fn = s["events"][l - 1].get("fn") or {"gen": "levenshtein_neighbors", "hgen": "hamming_neighbors", "nnd": "nndist_hamming"}[s["kind"]]
            ctx.violation(f"{fn}/{clause}", f"{fn} on x={s['desc']['x']!r} (20-letter alphabet): {clause}", dict(kind="session", session=s))
    # corrupted traces
    bad = []
    for s in sessions:
        ev = s["events"][0]
        if ev["op"] == "Gen" and len(ev["yields"]) > 3 and len(bad) < 3:
            c = copy.deepcopy({k: v for k, v in s.items() if k != "desc"})
            c["sid"] = 990000 + len(bad)
            if len(bad) == 0:
                c["events"][0]["yields"] = c["events"][0]["yields"][1:]
                want = "missing_neighbour"
            elif len(bad) == 1:
                c["events"][0]["yields"].append(c["events"][0]["yields"][0])
                want = "duplicate_yield"
            else:
                c["events"][0]["yields"].append(c["x"])
                want = "spurious_neighbour"
            bad.append((c, want))
    if bad:
        v = tcm.validate(ctx, "TraceNeighborhood", [b for b, _ in bad], constants=TRACE_CONSTS, count=False)
        for c, want in bad:
            ok = any(cl == want for _, _, cl in tcm.failures(v[c["sid"]]))
            ctx.negative.append(dict(kind="corrupted_trace", corruption=want, rejected=ok))
            if not ok:
                raise MachineryFailure(f"corrupted generator trace ({want}) accepted")
    # spec mutants: removing / tightening a skip rule must violate an invariant
    for mut, inv in (("no_del_skip", ["GenOnce"]), ("no_ins_skip", ["GenOnce"]), ("ins_skip_next", ["GenExact"])):
        run_cfg(ctx, "NEG_" + mut, cfg_text("Alpha2", 3, ["gen"], mutations=[mut], emit=False, invs=["GenExact", "GenOnce"]),
                expect_violation=inv, workers=4)


def replay(doc):
    from ..core import Ctx
    ctx = Ctx("C12", "quick", 0)
    ctx._known = []
    r = doc["replay"]
    if r.get("kind") == "replay":
        replay_doc(ctx, r["doc"], r["letters"])
        return 1 if ctx.violations else 0
    print("re-run ./check C12 (sessions are regenerated from the seed)")
    return 1
