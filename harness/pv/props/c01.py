"""C01 - default neighbour search returns exactly the pairs within max_edits."""
from __future__ import annotations

from .. import nncommon as nc
from .. import nnprops as npx
from ..nnprops import ModelRun

INVS = npx.BASE_INVS + ("SymDelLemma", "IndexIsVariants")


def models(quick):
    m = [ModelRun("C01_a2", letters=[0, 1], maxlen=3, maxn=2, ks=[1, 2], invariants=INVS)]
    if quick:
        m.append(ModelRun("C01_a2n3", letters=[0, 1], maxlen=2, maxn=3, ks=[1, 2], invariants=INVS))
    else:
        m.append(ModelRun("C01_a2n3", letters=[0, 1], maxlen=3, maxn=3, ks=[1, 2, 3], invariants=INVS))
        m.append(ModelRun("C01_a3", letters=[0, 1, 2], maxlen=3, maxn=2, ks=[1, 2, 3], invariants=INVS))
        m.append(ModelRun("C01_a2l4", letters=[0, 1], maxlen=4, maxn=2, ks=[1, 2, 3, 4], invariants=INVS))
        m.append(ModelRun("C01_a3n3", letters=[0, 1, 2], maxlen=2, maxn=3, ks=[1, 2], invariants=INVS))
        m.append(ModelRun("C01_a4", letters=[0, 1, 2, 3], maxlen=2, maxn=2, ks=[1, 2], invariants=INVS))
    return m


def run(ctx):
    ctx.rule = ("spec->code: every terminal behaviour of the TLC model (all lists of strings within the bounds) is "
                "executed on nearest_neighbor/symdel under several concrete alphabets; code->spec: recorded sessions "
                "(CheckInput, Build, Join, Output) on all-strings universes and seeded CDR3-like repertoires are "
                "validated by TraceNN.tla. Non-trivial = the case has at least one neighbour pair; distinct by input.")
    ctx.assumptions = ["TLC's evaluation of Strings.tla (fold-based DP) is the distance oracle; rapidfuzz is not trusted",
                       "model bounds: see tlc_runs; larger inputs are covered by sampled traces only"]
    # ---- M + R: exhaustive model, replayed
    for mr in models(ctx.quick):
        res = npx.run_model(ctx, mr, coverage=not ctx.quick)
        alph = {2: ["AC", "WY", "xy"], 3: ["ACD", "CWY", "a-#"], 4: ["ACDE", "wxyz"]}[len(mr.kw["letters"])]
        npx.replay_emitted(ctx, res, alph, budget=None if ctx.quick else 60000)
    ctx.exhaustive = True
    # ---- T: universes ("all pairs in one call") and random repertoires
    sessions = []
    sid = 0
    uni = [("AC", 4, (1, 2)), ("xyz", 3, (1, 3))] if ctx.quick else \
          [("AC", 5, (1, 2, 3, 4)), ("ACD", 4, (1, 2, 3)), ("xyz", 4, (1, 2, 3))]
    for letters, L, ks in uni:
        strs = nc.all_strings(letters, L)
        ctx.rng.shuffle(strs)
        for k in ks:
            sid += 1
            inp = nc.make_inp("symdel", "lev", k, strs, letters=letters)
            sessions.append(nc.build_session(sid, inp, letters=letters, api=("nearest_neighbor", "symdel")[sid % 2]))
    nrep = 14 if ctx.quick else 150
    for r in range(nrep):
        sid += 1
        n = ctx.rng.randint(12, 36) if ctx.quick else ctx.rng.randint(20, 70)
        k = ctx.rng.choice([1, 1, 2, 2, 3])
        seqs = nc.repertoire(ctx.rng, n, maxmut=k + 1, maxlen=16 if k < 3 else 12)
        inp = nc.make_inp("symdel", "lev", k, seqs)
        sessions.append(nc.build_session(sid, inp, api=("nearest_neighbor", "symdel")[sid % 2]))
    for r in range(1 if ctx.quick else 6):        # an expanded clone: dozens of exact copies and their relatives
        sid += 1
        seqs, _ = nc.expanded_clone(ctx.rng, copies=ctx.rng.randint(66, 80))
        sessions.append(nc.build_session(sid, nc.make_inp("symdel", "lev", 1 + r % 2, seqs), api=("nearest_neighbor", "symdel")[sid % 2], with_internal=False))
    # the lemmas behind the lifted inputs (copies, common affixes, length fillers) of all search checks, model-checked here once
    ctx.mc("StringLemmas", "StringLemmas.cfg" if ctx.quick else "StringLemmas_t.cfg", workers=8)
    npx.count_sessions(ctx, sessions)
    verdicts = nc.validate_sessions(ctx, sessions)
    npx.judge_sessions(ctx, sessions, verdicts)
    # ---- negative controls
    npx.corrupted_controls(ctx, sessions[-4:] + sessions[:2])
    npx.run_model(ctx, ModelRun("NEG_C01_kminus1", letters=[0, 1], maxlen=3, maxn=2, ks=[1, 2], asfound=["mut_sd_kminus1"],
                                invariants=("Exact", "SymDelLemma")), workers=4, expect_violation=True)


def replay(doc):
    return npx.replay_doc("C01", doc)
