"""C01 - default neighbour search returns exactly the pairs within max_edits."""
from __future__ import annotations

import copy

from .. import nncommon as nc
from ..nncommon import AA

ALPHABETS = ["AC", "WY", "xy"]          # concrete instantiations of the abstract 2-letter alphabet
ALPHABETS3 = ["ACD", "CDY", "a-#"]


def classify(inp, clause):
    """key of a violation = call site / mode / failing clause (input class)"""
    return f"symdel/{inp['mode']}/{'two' if inp['two'] else 'self'}/{clause}"


def replay_emitted(ctx, res, alphabets, apis=("nearest_neighbor", "symdel"), prop_key=classify):
    """spec -> code: every behaviour TLC emitted is executed on the real code."""
    drift_seen = 0
    for n, doc in enumerate(res.printed):
        if "inp" not in doc:
            continue
        for a_i, letters in enumerate(alphabets):
            api = apis[(n + a_i) % len(apis)] if apis else None
            bad, drift = nc.compare_case(doc, letters=letters, api=api)
            strs = [nc.dec(s, letters) for s in doc["inp"]["seqs"]]
            ctx.case(dict(kind="replay", api=api, seqs=strs, k=doc["inp"]["k"], expect=doc["trip"]),
                     nontrivial=len(doc["trip"]) > 0 and a_i == 0)
            drift_seen += len(drift)
            for ev, clause, detail in bad:
                ctx.violation(prop_key(doc["inp"], clause),
                              f"{api}({strs}, max_edits={doc['inp']['k']}) {ev}:{clause} {detail}",
                              dict(kind="replay", doc=doc, letters=letters, api=api))
        ctx.traces += 1
    if drift_seen:
        ctx.note(f"internal-state drift on {drift_seen} replayed behaviours (not a violation)")
    return drift_seen


def judge_sessions(ctx, sessions, verdicts, prop_key=classify):
    for s in sessions:
        api, drift = nc.failed_api_clauses(verdicts[s["sid"]])
        ctx.traces += 1
        for l, op, clause in api:
            ev = s["events"][l - 1]
            strs = [nc.dec(x, s["letters"]) for x in s["inp"]["seqs"]]
            ctx.violation(prop_key(s["inp"], clause),
                          f"{s['api']}: event {op} clause {clause} on {len(strs)} sequences {strs[:6]}... "
                          f"k={s['inp']['k']} {ev.get('exc', '')}",
                          dict(kind="session", session=s, verdict=verdicts[s["sid"]]))
        if drift:
            ctx.note(f"session {s['sid']}: drift {drift[:3]}")


def corrupted_controls(ctx, sessions):
    """Anti-vacuity: corrupt one recorded field per session copy; the validator must reject each."""
    bad = []
    sid = 900000
    for s in sessions:
        j = next((e for e in s["events"] if e["op"] == "Join"), None)
        if not j or not j["ret"]:
            continue
        for kind in ("drop", "dist", "dup", "self"):
            c = copy.deepcopy(s)
            cj = next(e for e in c["events"] if e["op"] == "Join")
            if kind == "drop":
                cj["ret"] = cj["ret"][1:]
                want = "missing_pair"
            elif kind == "dist":
                cj["ret"][0][2] += 1
                want = "wrong_distance"
            elif kind == "dup":
                cj["ret"].append(list(cj["ret"][0]))
                want = "repeated"
            else:
                cj["ret"].append([cj["ret"][0][0], cj["ret"][0][0], 0])
                want = "self_pair"
            sid += 1
            c["sid"] = sid
            c["events"] = [e for e in c["events"] if e["op"] != "Output"]
            bad.append((c, want))
        if len(bad) >= 8:
            break
    if not bad:
        return
    verd = nc.validate_sessions(ctx, [b for b, _ in bad], invariants=("Exact",), count=False)
    for c, want in bad:
        api, _ = nc.failed_api_clauses(verd[c["sid"]])
        ok = any(cl == want for _, _, cl in api)
        ctx.negative.append(dict(kind="corrupted_trace", corruption=want, rejected=ok))
        if not ok:
            from ..core import MachineryFailure
            raise MachineryFailure(f"corrupted trace ({want}) was accepted by the validator")


def run(ctx):
    ctx.rule = ("spec->code: every terminal behaviour of the TLC model (all lists of strings within the bounds) is "
                "executed on nearest_neighbor/symdel under several concrete alphabets; code->spec: recorded sessions "
                "(CheckInput, Build, Join, Output) on all-strings universes and seeded CDR3-like repertoires are "
                "validated by TraceNN.tla. Non-trivial = the case has at least one neighbour pair; distinct by input.")
    ctx.assumptions = ["TLC's evaluation of Strings.tla (fold-based DP) is the distance oracle; rapidfuzz is not trusted",
                       "model bounds: see tlc_runs; larger inputs are covered by sampled traces only"]
    # ---- M + R: exhaustive model, replayed
    cfgs = ["MCNN_C01_q.cfg"] if ctx.quick else ["MCNN_C01_q.cfg", "MCNN_C01_t2.cfg", "MCNN_C01_t3.cfg"]
    for cfg in cfgs:
        res = ctx.mc("MCNN", cfg, workers=16, coverage=not ctx.quick)
        alph = ALPHABETS3 if cfg.endswith("t3.cfg") else ALPHABETS
        replay_emitted(ctx, res, alph if not ctx.quick else alph[:2] + alph[2:])
    ctx.exhaustive = True
    # ---- T: universes ("all pairs in one call") and random repertoires
    sessions = []
    sid = 0
    uni = [("AC", 4, (1, 2))] if ctx.quick else [("AC", 5, (1, 2, 3, 4)), ("ACD", 4, (1, 2, 3)), ("xy", 4, (1, 2, 3))]
    for letters, L, ks in uni:
        strs = nc.all_strings(letters, L)
        ctx.rng.shuffle(strs)
        for k in ks:
            sid += 1
            inp = nc.make_inp("symdel", "lev", k, strs, letters=letters)
            sessions.append(nc.build_session(sid, inp, letters=letters, api=("nearest_neighbor", "symdel")[sid % 2]))
    nrep = 10 if ctx.quick else 120
    for r in range(nrep):
        sid += 1
        n = ctx.rng.randint(12, 30) if ctx.quick else ctx.rng.randint(20, 60)
        k = ctx.rng.choice([1, 1, 2, 2, 3])
        seqs = nc.repertoire(ctx.rng, n, maxmut=k + 1, maxlen=14 if k < 3 else 11)
        inp = nc.make_inp("symdel", "lev", k, seqs)
        sessions.append(nc.build_session(sid, inp, api=("nearest_neighbor", "symdel")[sid % 2]))
    for s in sessions:
        j = next(e for e in s["events"] if e["op"] == "Join")
        ctx.case(dict(kind="session", api=s["api"], n=len(s["inp"]["seqs"]), k=s["inp"]["k"],
                      first=[nc.dec(x, s["letters"]) for x in s["inp"]["seqs"][:5]], pairs=len(j["ret"])),
                 nontrivial=len(j["ret"]) > 0)
    verdicts = nc.validate_sessions(ctx, sessions)
    judge_sessions(ctx, sessions, verdicts)
    # ---- negative controls
    corrupted_controls(ctx, sessions[-4:] + sessions[:2])
    if not ctx.quick:
        ctx.mc("MCNN", "NEG_C01_sdlemma.cfg", workers=8, expect_violation=True)


def replay(doc):
    """Re-run one recorded violation against the current tree."""
    from ..core import Ctx
    ctx = Ctx("C01", "quick", 0)
    r = doc["replay"]
    if r["kind"] == "replay":
        bad, _ = nc.compare_case(r["doc"], letters=r["letters"], api=r["api"])
        print("mismatches:", bad)
        return 1 if bad else 0
    s = r["session"]
    s2 = nc.build_session(s["sid"], s["inp"], letters=s["letters"], api=s["api"] or None)
    v = nc.validate_sessions(ctx, [s2], count=False)
    api, _ = nc.failed_api_clauses(v[s2["sid"]])
    print("failed clauses:", api)
    return 1 if api else 0
