"""X01 - helpers outside the listed properties (spec/Helpers.tla): specification coverage beyond C01-C20.
Not registered in MANIFEST.json: a disagreement is reported as `DRIFT extra=<key>` (exit 0), never as a violation of a listed
property; only a machinery failure exits 2. Evidence goes to evidence_extra/X01.json."""
from __future__ import annotations

import json
import os
import time
from fractions import Fraction

import numpy as np


def run(ctx):
    import matplotlib
    matplotlib.use("Agg")
    import matplotlib.pyplot as plt
    import pandas as pd
    import pyrepseq as prs
    import pyrepseq.plotting as pl
    from pyrepseq.metric.tcr_metric.tcr_metric import is_in_standard_format
    ctx.rule = ("Helpers.tla (label_axes as a walk over the axes with cyclic labels; convert_tuple / ensure_numpy / default-metric and "
                "standard-format decision tables; seqlogos_vj glyph stacks; HandlerTupleOffset shifts; clustermap_split cell layout) is model-checked (LabelsCycle, SplitTriangles, "
                "GlyphsPartition, LegendCentred, MetricTable) and every terminal behaviour is executed on the real helpers.")
    res = ctx.mc("MCHelpers", "MCHelpers.cfg", workers=4)
    drift = []

    def note(key, what):
        drift.append((key, what))
        print(f"DRIFT extra={key} :: {what}"[:400], flush=True)
    for doc in res.printed:
        k, inp, out = doc.get("kind"), doc.get("inp"), doc.get("out")
        if not k:
            continue
        ctx.traces += 1
        ctx.case(dict(kind=k, inp=inp), nontrivial=True)
        try:
            if k == "label":
                n = inp["axes"]
                fig = plt.figure()
                axs = [fig.add_subplot(1, max(n, 1), j + 1) for j in range(n)]
                labels = [f"L{v}" for v in inp["labels"]]
                pl.label_axes(axs if ctx.evaluations % 2 else fig, labels=labels, labelstyle="(%s)")
                got = [[t.get_text() for t in ax.texts] for ax in axs]
                want = [[f"(L{v})"] for v in out] if out else [[] for _ in axs]
                plt.close(fig)
                if got != want:
                    note("label_axes/annotations", f"label_axes({n} axes, labels={labels}) annotated {got} want {want}")
            elif k == "tuple":
                a = [f"CA{j}" for j in range(inp["a"])]
                b = [f"CB{j}" for j in range(inp["b"])]
                arg = {"tuple2": (a, b), "tuple3": (a, b, a), "list": a, "table": pd.DataFrame(dict(CDR3A=a))}[inp["cls"]]
                import warnings
                with warnings.catch_warnings():
                    warnings.simplefilter("ignore")
                    r = prs.util.convert_tuple_to_dataframe_if_necessary(arg)
                if out["converted"]:
                    rows = [tuple(x) for x in r.values.tolist()] if isinstance(r, pd.DataFrame) else None
                    if rows != list(zip(a, b)) or list(r.columns) != ["CDR3A", "CDR3B"]:
                        note("convert_tuple/rows", f"convert_tuple(({a}, {b})) gave {rows}")
                elif r is not arg:
                    note("convert_tuple/identity", f"convert_tuple({inp['cls']}) did not return its argument")
            elif k == "numpy":
                vals = ["CASSF", "CAWF", "CASSF"]
                arg = {"series": pd.Series(vals, index=[5, 3, 9]), "ndarray": np.array(vals), "list": list(vals), "tuple": tuple(vals)}[inp["cls"]]
                r = prs.util.ensure_numpy(arg)
                if not isinstance(r, np.ndarray) or list(r) != vals or (r is arg) != out["same_object"]:
                    note("ensure_numpy", f"ensure_numpy({inp['cls']}) -> {type(r).__name__} {list(r)} same_object={r is arg}")
            elif k == "metric":
                cols = sorted(inp["cols"])
                arg = pd.DataFrame({c: ["CASSF", "CAWF"] for c in cols}) if inp["cls"] == "table" else ["CASSF", "CAWF"]
                m = type(prs.distance.get_default_metric_for_input_data(arg)).__name__
                std = bool(is_in_standard_format(arg))
                if m != out["metric"]:
                    note("default_metric", f"default metric for {inp['cls']} with columns {cols}: {m} want {out['metric']}")
                if std != out["standard"]:
                    note("is_in_standard_format", f"is_in_standard_format({inp['cls']} {cols}) = {std} want {out['standard']}")
            elif k == "glyphs":
                counts = inp["counts"]
                genes = [f"TRBV{g + 1}" for g, c in enumerate(counts) for _ in range(c)]
                df = pd.DataFrame(dict(c=["CASSF"] * len(genes), v=genes, j=["TRBJ1"] * len(genes)))
                calls = []
                real = pl.lm.Glyph
                pl.lm.Glyph = lambda p, c, floor, ceiling, ax=None, **kw: calls.append((c, int(floor), int(ceiling), ax))
                try:
                    axes = pl.seqlogos_vj(df, "c", "v", "j")
                finally:
                    pl.lm.Glyph = real
                    plt.close("all")
                vstack = [[f, c_] for (t, f, c_, ax) in calls if ax is axes[0]]
                texts = [t for (t, f, c_, ax) in calls if ax is axes[0]]
                heights = {f"V{g + 1}": c for g, c in enumerate(counts)}
                text_ok = sorted(texts) == sorted(heights) and all(heights[t] == c_ - f for t, (f, c_) in zip(texts, vstack))
                if vstack != [list(x) for x in out["stack"]] or not text_ok:
                    note("seqlogos_vj/stack", f"seqlogos_vj V-gene glyphs for counts {counts}: {vstack} {texts} want {out['stack']}")
            elif k == "legend":
                n, horizontal = inp["n"], inp["horizontal"]
                rec = []

                class H:
                    def create_artists(self, legend, handle, xd, yd, w, h, fs, trans):
                        rec.append((xd, yd))
                        return [handle]

                class L:
                    def get_legend_handler_map(self):
                        return {}

                    def get_legend_handler(self, m, handle):
                        return H()
                hto = pl.HandlerTupleOffset(horizontal=horizontal)
                width, height, xd0, yd0 = 12.0, 5.0, 1.0, 2.0
                hto.create_artists(L(), tuple(range(n)), xd0, yd0, width, height, 8, None)
                extent = width if horizontal else height
                want = [float(Fraction(s[0], s[1])) * extent for s in out["shift"]]
                got = [(xd - xd0) if horizontal else (yd - yd0) for xd, yd in rec]
                other = [(yd - yd0) if horizontal else (xd - xd0) for xd, yd in rec]
                if len(got) != n or any(abs(g - w) > 1e-9 for g, w in zip(got, want)) or any(abs(o) > 1e-12 for o in other):
                    note("HandlerTupleOffset/shift", f"{n} handles horizontal={horizontal}: shifts {got} want {want}")
            elif k == "split":
                n, ys, xs = inp["n"], [v - 1 for v in inp["rows"]], [v - 1 for v in inp["cols"]]

                def caterpillar(order):
                    # a linkage whose dendrogram lists the leaves in exactly this order (no distance / count sorting in seaborn)
                    Z, left = [], order[0]
                    for step_, leaf in enumerate(order[1:]):
                        Z.append([float(left), float(leaf), float(step_ + 1), float(step_ + 2)])
                        left = n + step_
                    return np.array(Z)
                lower = pd.DataFrame([[10 * (r + 1) + (c + 1) for c in range(n)] for r in range(n)])
                # (tables with the default 0..n-1 labels, as similarity_clustermap builds them; with other labels the function raises
                #  IndexError inside seaborn's mask alignment - observed, outside every listed property, noted in DESIGN.md)
                upper = pd.DataFrame([[100 + 10 * (r + 1) + (c + 1) for c in range(n)] for r in range(n)])
                cg = pl.clustermap_split(lower, upper, row_linkage=caterpillar(ys), col_linkage=caterpillar(xs), figsize=(2.5, 2.5))
                got_rows, got_cols = list(cg.dendrogram_row.reordered_ind), list(cg.dendrogram_col.reordered_ind)
                got = np.asarray(cg.data2d).tolist()
                plt.close("all")
                if got_rows != ys or got_cols != xs:
                    note("clustermap_split/order", f"dendrogram order rows {got_rows} cols {got_cols} want {ys} {xs}")
                elif got != out["cells"]:
                    note("clustermap_split/cells", f"clustermap_split rows {ys} cols {xs}: data2d {got} want {out['cells']}")
        except Exception as e:      # noqa: BLE001
            note(f"{k}/raised", f"{k} {inp} raised {type(e).__name__}: {e}")
    ctx.exhaustive = True
    ctx.extra["drift"] = [dict(key=a, what=b) for a, b in drift[:50]]
    ctx.extra["drift_count"] = len(drift)
    # evidence of the extra check lives apart from the listed properties
    from .. import core
    d = os.path.join(core.ROOT, "evidence_extra")
    os.makedirs(d, exist_ok=True)
    with open(os.path.join(d, "X01.json"), "w") as f:
        json.dump(dict(id="X01", spec="Helpers.tla", states=ctx.states, behaviours_replayed=ctx.traces, drift=ctx.extra["drift"], drift_count=len(drift),
                       invariants=["LabelsCycle", "GlyphsPartition", "LegendCentred", "MetricTable", "SplitTriangles"], wall_s=round(time.time() - ctx.t0, 1)), f, indent=1)


def replay(doc):
    print("re-run ./check X01")
    return 0
