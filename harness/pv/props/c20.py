"""C20 - calls are pure: arguments stay untouched and results ignore call history."""
from __future__ import annotations

import copy
import json
import os
import shutil
import subprocess
import sys
import tempfile
from concurrent.futures import ThreadPoolExecutor

from .. import tracecommon as tcm
from ..core import MachineryFailure

CLASSES = ["pure", "raising", "kd", "cm_default", "cm_norm", "hc_default", "hc_custom", "tcrdist", "random"]
SEED0 = 12345


def cfg_text(maxhist, deviations=(), emit=True, seeds=(1,)):
    t = "SPECIFICATION Spec\nCONSTANTS\n"
    t += "  Classes = {" + ", ".join(f'"{c}"' for c in CLASSES) + "}\n"
    t += f"  MaxHist = {maxhist}\n  Seeds = {{{', '.join(map(str, seeds))}}}\n"
    t += "  Deviations = {" + ", ".join(f'"{d}"' for d in deviations) + "}\n"
    t += "INVARIANT HistoryIndependence\nINVARIANT DefaultsIntact\nINVARIANT ArgsUntouched\n"
    if emit:
        t += "INVARIANT EmitHist\n"
    return t


def run_cfg(ctx, name, text, expect_violation=None, workers=8):
    d = tempfile.mkdtemp(prefix="pvcfg_")
    try:
        p = os.path.join(d, name + ".cfg")
        with open(p, "w") as f:
            f.write(text)
        return ctx.mc("MCSession", p, workers=workers, expect_violation=expect_violation)
    finally:
        shutil.rmtree(d, ignore_errors=True)


def fresh_outcomes(names, hashseed="0"):
    """each call alone in its own fresh interpreter (in parallel)"""
    here = os.path.dirname(os.path.dirname(os.path.dirname(os.path.abspath(__file__))))       # /verif/harness
    env = dict(os.environ, PYTHONPATH=here + ":" + os.environ.get("PV_REPO", "/repo"), PYTHONDONTWRITEBYTECODE="1", MPLBACKEND="Agg", PYTHONHASHSEED=hashseed, OMP_NUM_THREADS="1")

    def one(name):
        p = subprocess.run([sys.executable, "-m", "pv.fresh", name, str(SEED0)], env=env, stdout=subprocess.PIPE, stderr=subprocess.PIPE, text=True, timeout=600)
        for line in p.stdout.splitlines():
            if line.startswith("@@RESULT@@"):
                return name, json.loads(line[len("@@RESULT@@"):])
        raise MachineryFailure(f"fresh process for {name} gave no result (rc={p.returncode}): {p.stderr[-500:]}")
    with ThreadPoolExecutor(max_workers=12) as ex:
        return dict(ex.map(one, names))


def run(ctx):
    import logging
    import warnings
    warnings.filterwarnings("ignore")
    logging.disable(logging.CRITICAL)
    from .. import catalogue
    ctx.rule = ("Session.tla: histories of public calls over an abstract catalogue (classes by read / write set on the module state: parameter "
                "block owner, dict-valued defaults, NumPy generator state) are model-checked for HistoryIndependence, DefaultsIntact, "
                "ArgsUntouched; the as-found colour-bar tick leak and two seeded deviations are rejected. Every history TLC emits is executed in "
                "ONE interpreter with concrete catalogue entries (about 100 calls from every module): after each call every argument is "
                "deep-compared with its snapshot, the dict defaults and the parameter block are projected and compared with the model's mod, "
                "and the canonicalised result is compared with the result of the same call alone in a fresh process; the recorded session is "
                "validated by TraceSession.tla. Non-trivial = a call that is not first in its interpreter.")
    ctx.assumptions = ["results are canonicalised (floats to 9 significant digits; figures to the artist data of C19)",
                       "randomised calls are preceded by seeding NumPy's and Python's generators in both the session and the fresh process"]
    q = ctx.quick
    entries = catalogue.build()
    if q:
        entries = [e for e in entries if not (e.slow and e.name in ("kdtree/n_cpu2", "similarity_clustermap/bounds", "similarity_clustermap/single_meta", "seqlogos"))]
    by_class = {}
    for e in entries:
        by_class.setdefault(e.cls, []).append(e)
    missing = [c for c in CLASSES if c not in by_class]
    if missing:
        raise MachineryFailure(f"catalogue has no entry of class {missing}")
    # ---- M: model and histories
    res = run_cfg(ctx, "session", cfg_text(2 if q else 3))
    for dev, inv in (("cbar_ticks_leak", ["HistoryIndependence", "DefaultsIntact"]), ("kd_reads_before_write", ["HistoryIndependence"]),
                     ("default_mutated", ["HistoryIndependence", "DefaultsIntact"])):
        run_cfg(ctx, "NEG_" + dev, cfg_text(3, deviations=[dev], emit=False), expect_violation=inv, workers=4)
    histories = [d["hist"] for d in res.printed if "hist" in d]
    ctx.rng.shuffle(histories)
    if not q:
        histories = histories[:400]
    # ---- fresh-process baseline, one process per catalogue entry
    fresh = fresh_outcomes([e.name for e in entries])
    for e in entries:
        if not fresh[e.name]["untouched"]:
            ctx.violation(f"{e.name}/argument_mutated", f"{e.name} modified one of its arguments (fresh process)", dict(kind="fresh", entry=e.name))
        if e.cls == "raising" and fresh[e.name]["outcome"]["ok"]:
            raise MachineryFailure(f"catalogue entry {e.name} was expected to raise")
        if e.cls != "raising" and not fresh[e.name]["outcome"]["ok"]:
            ctx.violation(f"{e.name}/raised", f"{e.name} raised {fresh[e.name]['outcome']['value']} in a fresh process", dict(kind="fresh", entry=e.name))
    # ---- a fresh interpreter is a fresh interpreter whatever its string-hash seed: the same call (same NumPy seed for the
    # randomised ones) must give the same value under another PYTHONHASHSEED (iteration order of sets of labels, ...)
    hs_names = [e.name for e in entries if fresh[e.name]["outcome"]["ok"] and
                (not q or e.cls == "random" or e.name.split("/")[0] in ("labels_to_colors_hls", "labels_to_colors_tableau", "overlap", "overlap_coefficient", "jaccard_index",
                                                                           "graph_clustering", "seqs_to_regex", "pc", "multimerge", "standardize_dataframe"))]
    other = fresh_outcomes(hs_names, hashseed="4242")
    for name in hs_names:
        ctx.case(dict(kind="hash-seed", entry=name), nontrivial=True)
        if other[name]["outcome"] != fresh[name]["outcome"]:
            ctx.violation(f"{name}/result_depends_on_interpreter_hash_seed",
                          f"{name}: alone in a fresh interpreter with PYTHONHASHSEED=4242 gives a different value than with PYTHONHASHSEED=0 (same NumPy seed)",
                          dict(kind="hashseed", entry=name))
    # ---- R + T: the histories, concatenated in ONE interpreter
    initial = catalogue.default_state()
    cursor = {c: 0 for c in by_class}
    events, log = [], []
    nkd = 0
    used = set()
    plan = []
    for h in histories:
        plan.extend(c for c, _ in h)
    # make sure every catalogue entry is executed at least once (after some history)
    for c, es in by_class.items():
        plan.extend([c] * max(0, len(es) - plan.count(c)))
    # "... including calls that raised": every raising call is followed by the sentinel calls whose values (inf / nan) exist only
    # under the default floating-point error handling
    by_name = {e.name: e for e in entries}
    sentinels = [e.name for e in entries if e.name.startswith("sentinel/")]
    for e in entries:
        if e.cls == "raising":
            plan.extend(["@" + e.name] + ["@" + s_ for s_ in sentinels])
    # "... whether it runs first or after other calls" includes after ITSELF: every (fast) entry once more at the end of the session
    for e in entries:
        if e.cls != "raising" and not e.slow and not e.name.startswith("sentinel/"):
            plan.append("@" + e.name)
    cm_budget = 14 if q else 80
    env0 = initial.get("_env")
    for item in plan:
        if item.startswith("@"):
            e = by_name[item[1:]]
            cls = e.cls
        else:
            cls = item
            if cls in ("cm_default", "cm_norm"):
                if cm_budget <= 0:
                    continue
                cm_budget -= 1
            es = by_class[cls]
            e = es[cursor[cls] % len(es)]
            cursor[cls] += 1
        used.add(e.name)
        seed = SEED0 if cls == "random" else None
        outcome, untouched = catalogue.run_entry(e, seed)
        st = catalogue.default_state()
        if cls == "kd":
            nkd += 1
        want = fresh[e.name]["outcome"]
        equals_fresh = (outcome == want) if want["ok"] else True
        raised_as_fresh = outcome["ok"] == want["ok"] and (want["ok"] or outcome["value"] == want["value"])
        ticks = any("ticks" in d for d in st["similarity_clustermap"])
        if st.get("_env") != env0:
            ctx.note(f"process-wide settings differ after {e.name}: {st.get('_env')} (initially {env0})")
            env0 = st.get("_env")
        others = {k: v for k, v in st.items() if k not in ("_cal", "_env")}
        init_others = {k: v for k, v in initial.items() if k not in ("_cal", "_env")}
        for d in others["similarity_clustermap"]:
            d.pop("ticks", None)
        dflt = others != init_others
        prev_t, prev_d = (events[-1]["ticks"], events[-1]["dflt"]) if events else (False, False)
        ev = dict(op="Call", cls=cls, seed=1, entry=e.name, args_untouched=untouched, equals_fresh=equals_fresh, raised_as_fresh=raised_as_fresh,
                  ticks=ticks, dflt=dflt, ticks_changed=ticks != prev_t, dflt_changed=dflt != prev_d, cal_ok=(st["_cal"] is None) == (nkd == 0))
        events.append(ev)
        log.append((e.name, outcome if not equals_fresh else None, want if not equals_fresh else None))
        ctx.case(dict(entry=e.name, cls=cls, position=len(events), previous=events[-2]["entry"] if len(events) > 1 else None), nontrivial=len(events) > 1)
    ctx.extra["catalogue_entries"] = len(entries)
    ctx.extra["entries_executed_in_history"] = len(used)
    ctx.extra["histories_from_tlc"] = len(histories)
    ctx.extra["calls_in_session"] = len(events)
    ctx.exhaustive = True
    session = dict(sid=1, events=[{k: v for k, v in ev.items() if k != "entry"} for ev in events])
    consts = ("  Classes = {" + ", ".join(f'"{c}"' for c in CLASSES) + "}\n" + f"  MaxHist = {len(events) + 1}\n  Seeds = {{1}}\n  Deviations = {{}}")
    verd = tcm.validate(ctx, "TraceSession", [session], constants=consts, invariants=("HistoryIndependence", "DefaultsIntact"), workers=1)
    ctx.traces += len(histories)
    drift = 0
    for l, op, clause in tcm.failures(verd[1]):
        ev = events[l - 1]
        name, got, want = log[l - 1]
        prev = [e2["entry"] for e2 in events[max(0, l - 4): l - 1]]
        if clause in ("argument_mutated", "result_differs_from_fresh_process", "raised_unlike_fresh_process"):
            extra = ""
            if clause == "result_differs_from_fresh_process" and isinstance(got, dict) and isinstance(want, dict) and isinstance(got.get("value"), dict) and isinstance(want.get("value"), dict):
                extra = " differing fields: " + ", ".join(k for k in got["value"] if got["value"].get(k) != want["value"].get(k))
            ctx.violation(f"{name}/{clause}", f"{name} as call #{l} after ...{prev}: {clause}{extra}",
                          dict(kind="history", entry=name, previous=[e2["entry"] for e2 in events[:l - 1]][-12:], clause=clause))
        elif clause == "default_argument_modified":
            which = "cbar_kws['ticks']" if ev["ticks_changed"] else "a dict default"
            ctx.violation(f"{name}/default_argument_modified", f"after {name} (call #{l}) {which} of a public function differs from its definition-time value",
                          dict(kind="history", entry=name, clause=clause))
        else:
            drift += 1
    if drift:
        ctx.note(f"{drift} drift observations (parameter block / model prediction)")
    # ---- negative control: a corrupted observation must be rejected
    c = copy.deepcopy(session)
    c["sid"] = 2
    c["events"] = c["events"][:5]
    for e_ in c["events"]:
        e_["ticks_changed"] = e_["dflt_changed"] = False
    c["events"][3]["equals_fresh"] = False
    v = tcm.validate(ctx, "TraceSession", [c], constants=consts, count=False, workers=1)
    ok = any(cl == "result_differs_from_fresh_process" for _, _, cl in tcm.failures(v[2]))
    ctx.negative.append(dict(kind="corrupted_trace", corruption="equals_fresh", rejected=ok))
    if not ok:
        raise MachineryFailure("corrupted session trace accepted")


def replay(doc):
    from .. import catalogue
    r = doc["replay"]
    entries = {e.name: e for e in catalogue.build()}
    if r.get("kind") == "history":
        fresh = fresh_outcomes([r["entry"]])[r["entry"]]["outcome"]
        for name in r.get("previous", []):
            catalogue.run_entry(entries[name], SEED0 if entries[name].cls == "random" else None)
        e = entries[r["entry"]]
        outcome, untouched = catalogue.run_entry(e, SEED0 if e.cls == "random" else None)
        print("untouched", untouched, "equals fresh", outcome == fresh)
        return 1 if (not untouched or outcome != fresh) else 0
    print("re-run ./check C20")
    return 1
