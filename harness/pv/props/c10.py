"""C10 - search results do not depend on output format or input container; invalid arguments are rejected."""
from __future__ import annotations

import numpy as np

from .. import nncommon as nc
from .. import nnprops as npx
from ..nnprops import ModelRun

OUTPUTS = ["triplets", "coo_matrix", "ndarray"]


def classify(inp, container, clause):
    c = "series-nondefault-index" if container in ("series_shift", "series_perm", "series_str") else container
    return f"{inp['engine']}/{inp['mode']}/{'two' if inp['two'] else 'self'}/container={c}/{clause}"


def models(quick):
    inv = ("TypeOK", "Exact", "NoRepeat", "DenseExact")
    if quick:
        return [ModelRun("C10_sd", letters=[0, 1], maxlen=2, maxn=3, ks=[1], engines=["symdel"], modes=["lev", "hamming"], invariants=inv),
                ModelRun("C10_sd2", letters=[0, 1], maxlen=1, maxn=3, maxn2=2, ks=[1], engines=["symdel", "hash"], invariants=inv),
                # a second collection longer than the first: matrices wider than high
                ModelRun("C10_wide", letters=[0, 1], maxlen=1, maxn=2, maxn2=4, ks=[1], engines=["symdel", "hash"], invariants=inv),
                ModelRun("C10_hk", letters=[0, 1], maxlen=2, maxn=2, ks=[1], engines=["hash", "kd"], modes=["lev", "hamming"], comps=[1], invariants=inv),
                ModelRun("C10_cd", letters=[0, 1], maxlen=2, maxn=2, ks=[1, 2], engines=["symdel", "hash", "kd"], modes=["custom"], cdfams=["hamlen", "levq"],
                         maxcs=[nc.INF], invariants=inv)]
    return [ModelRun("C10_sd", letters=[0, 1], maxlen=2, maxn=3, ks=[1, 2], engines=["symdel", "hash", "kd"], modes=["lev", "hamming"], invariants=inv),
            ModelRun("C10_sd2", letters=[0, 1], maxlen=2, maxn=2, maxn2=2, ks=[1, 2], engines=["symdel", "hash"], invariants=inv),
            ModelRun("C10_wide", letters=[0, 1], maxlen=1, maxn=2, maxn2=5, ks=[1, 2], engines=["symdel", "hash"], invariants=inv),
            ModelRun("C10_cd", letters=[0, 1], maxlen=2, maxn=3, ks=[1], engines=["symdel", "hash", "kd"], modes=["custom"], cdfams=["hamlen", "lev2", "levq"], maxcs=[4, nc.INF], invariants=inv)]


def check_variants(ctx, doc, letters, containers, n):
    """One emitted behaviour under every container kind x output type."""
    inp = doc["inp"]
    want_t = sorted(map(tuple, doc["trip"]))
    want_d = doc["dense"]
    api = npx.api_for(inp, n)
    for cont in containers:
        for out in OUTPUTS:
            desc = f"{npx.describe(inp, letters, api)} container={cont} output_type={out}"
            ctx.case(dict(kind="variant", call=desc), nontrivial=len(want_t) > 0 and cont != "list")
            try:
                r = nc.call_engine(inp, letters, api=api, output_type=out, container=cont)
            except Exception as e:    # noqa: BLE001
                ctx.violation(classify(inp, cont, "raised"), f"{desc} raised {type(e).__name__}: {e}"[:500],
                              dict(kind="variant", doc=doc, letters=letters, api=api, container=cont, output=out))
                continue
            bad = None
            if out == "triplets":
                got = sorted(map(tuple, nc.norm_triplets(r, inp["mode"])))
                if got != want_t:
                    bad = f"triplets {got} want {want_t}"
            else:
                nr = len(inp["seqs"])
                ncol = len(inp["seqs2"]) if inp["two"] else nr
                if not hasattr(r, "shape"):
                    bad = f"returned a {type(r).__name__} ({r!r:.80}) instead of a matrix of shape {(nr, ncol)}"
                elif tuple(r.shape) != (nr, ncol):
                    bad = f"shape {tuple(r.shape)} want {(nr, ncol)}"
                else:
                    if out == "coo_matrix":
                        cells = list(zip(r.row.tolist(), r.col.tolist()))
                        if len(cells) != len(set(cells)):
                            bad = "an entry is stored (accumulated) twice in the COO matrix"
                        dense = nc.norm_dense(r.toarray(), inp["mode"])
                    else:
                        dense = nc.norm_dense(r, inp["mode"])
                    if bad is None and dense != want_d:
                        bad = f"matrix {dense} want {want_d}"
            if bad:
                ctx.violation(classify(inp, cont, "differs"), f"{desc}: {bad}"[:600],
                              dict(kind="variant", doc=doc, letters=letters, api=api, container=cont, output=out))


# ------------------------------------------------------------------ argument validation

# several concrete values per argument class; `v` rotates through them
INSTANCES = dict(
    seqs={"ok": [["CAAA", "CAAD", "CDDD"], ("CAAA", "CAAD")], "ok_npstr": [np.array(["CAAA", "CAAD"])], "empty": [[], (), np.array([], dtype=str)],
          "nonstring_elem": [["CAAA", 5, "CDDD"], ["CAAA", 1.5], ["CAAA", b"CAAD"], [("C", "A"), "CA"]],
          "none_elem": [["CAAA", None], [None, "CAAA"]], "not_iterable": [5, 2.5]},
    max_edits={"one": [1], "two": [2], "zero": [0], "negative": [-1, -3], "float_1_5": [1.5, 0.5], "string": ["1", "one"]},
    max_returns={"none": [None], "one": [1]},
    n_cpu={"one": [1], "zero": [0], "negative": [-1, -2]},
    output_type={"triplets": ["triplets"], "coo_matrix": ["coo_matrix"], "ndarray": ["ndarray"],
                 "unknown": ["dense", "array", "matrix", "coo", "triplet", "", " ", "TRIPLETS", "ndarray ", "or", "csr_matrix", "triplets,"],
                 "none": [None, 0, 3.5]},
    seqs2={"none": [None], "ok": [["CAAA", "CADA"]], "nonstring_elem": [["CAAA", 7], [None, "CAAA"], ["CAAA", 2.5]]},
)


def n_variants(argc):
    return max(len(INSTANCES[k][argc[k]]) for k in INSTANCES)


def concrete_args(argc, v=0):
    import copy as _copy
    pick = {k: _copy.deepcopy(INSTANCES[k][argc[k]][v % len(INSTANCES[k][argc[k]])]) for k in INSTANCES}
    kw = {k: pick[k] for k in ("max_edits", "max_returns", "n_cpu", "output_type")}
    return pick["seqs"], kw, pick["seqs2"]


def validation_part(ctx):
    import pyrepseq.nn as nn
    res = ctx.mc("InputCheck", "InputCheck.cfg", workers=8)
    fns = [("symdel", nn.symdel, True), ("nearest_neighbor", nn.nearest_neighbor, True), ("hash_based", nn.hash_based, False), ("kdtree", nn.kdtree, False)]
    for doc in res.printed:
        if "argc" not in doc:
            continue
        argc = doc["argc"]
        for name, fn, has2 in fns:
            if not has2 and argc["seqs2"] != "none":
                continue
            for v in range(n_variants(argc)):
                seqs, kw, s2 = concrete_args(argc, v)
                if has2:
                    kw["seqs2"] = s2
                if v % 2 == 1 or (argc["seqs"] == "empty" and v % 3 == 0) or (argc["output_type"] in ("unknown", "none") and v % 2 == 0 and name == "kdtree"):
                    kw["custom_distance"] = "hamming"           # the same classes are invalid whatever the distance mode
                try:
                    fn(seqs, **kw)
                    raised = False
                    exc = ""
                except Exception as e:     # noqa: BLE001
                    raised = True
                    exc = f"{type(e).__name__}: {e}"[:120]
                ctx.case(dict(kind="validation", fn=name, argc=argc, variant=v, expect_error=doc["err"]), nontrivial=doc["err"])
                if raised != doc["err"]:
                    what = "accepted an invalid argument" if doc["err"] else "rejected a valid call"
                    ctx.violation(f"{name}/validation/{'invalid_accepted' if doc['err'] else 'valid_rejected'}/{doc['at']}",
                                  f"{name}({seqs!r}, {kw}) {what}: classes {argc} (first failing assertion in the model: {doc['at']}) {exc}"[:500],
                                  dict(kind="validation", fn=name, argc=argc, variant=v, expect_error=doc["err"]))
        ctx.traces += 1


def empty_second_part(ctx):
    """An empty second collection is either refused (the statement lists empty input among the invalid arguments) or answered with
    the empty result in the requested format - shape (len(seqs), 0), no triplets; both readings are accepted, nothing else."""
    import pandas as pd
    import pyrepseq.nn as nn
    seqs = ["CASSLG", "CASSLE", "CAWSLG", "CASSL", "CAS"]
    empties = {"list": [], "tuple": (), "ndarray": np.array([], dtype=object), "series": pd.Series([], dtype=object)}
    conts = {"list": list(seqs), "ndarray": np.array(seqs, dtype=object), "series-string-index": pd.Series(seqs, index=list("vwxyz"))}
    for name, fn in (("symdel", nn.symdel), ("nearest_neighbor", nn.nearest_neighbor)):
        for ck, s1 in conts.items():
            for ek, s2 in empties.items():
                for out in OUTPUTS:
                    for kw in ({}, {"max_edits": 2}, {"custom_distance": "hamming"}):
                        ctx.case(dict(kind="empty_second", fn=name, container=ck, empty=ek, output=out, **kw), nontrivial=True)
                        rp = dict(kind="empty_second", fn=name, container=ck, empty=ek, output=out, kw=kw)
                        try:
                            r = fn(s1, seqs2=s2, output_type=out, **kw)
                        except Exception:      # noqa: BLE001
                            continue             # refused: allowed
                        if out == "triplets":
                            ok, what = (len(list(r)) == 0), f"{list(r)[:3]}"
                        else:
                            ok, what = (hasattr(r, "shape") and tuple(r.shape) == (len(seqs), 0)), f"shape {getattr(r, 'shape', type(r).__name__)}"
                        if not ok:
                            ctx.violation(f"{name}/empty_second_collection/{out}", f"{name}({ck} of {len(seqs)}, seqs2=empty {ek}, output_type={out!r}, {kw}) "
                                          f"returned {what}; want an error or the empty result of shape ({len(seqs)}, 0)", rp)
    ctx.traces += 1


def run(ctx):
    ctx.rule = ("spec->code: (a) every terminal behaviour of small NNSearch models is executed under 7 container kinds x 3 output types "
                "and compared with the model's triplets and dense matrix; (b) every terminal state of InputCheck.tla (all vectors of "
                "argument classes) is instantiated on symdel, nearest_neighbor, hash_based and kdtree: error raised iff the model "
                "rejects. code->spec: recorded sessions with random container/output variants validated by TraceNN.tla. "
                "Non-trivial = result has a pair and container is not a plain list / vector is invalid.")
    ctx.assumptions = ["any exception type counts as 'rejected'; a returned value counts as 'accepted'",
                       "argument classes outside the property's list (max_returns <= 0, float n_cpu, ...) are not judged"]
    conts = nc.CONTAINERS
    n = 0
    for mr in models(ctx.quick):
        res = npx.run_model(ctx, mr, coverage=not ctx.quick)
        for doc in ctx.sample([d for d in res.printed if isinstance(d, dict) and "inp" in d], 6000):
            if isinstance(doc, dict) and "inp" in doc:
                n += 1
                if ctx.quick and doc["inp"]["engine"] == "hash" and n % 2:
                    continue
                check_variants(ctx, doc, nc.AA, conts, n)
                ctx.traces += 1
    ctx.exhaustive = True
    validation_part(ctx)
    empty_second_part(ctx)
    # recorded sessions with random variants
    sessions, sid = [], 0
    sub = "ACDHIY"
    codes = sorted(nc.AA.index(c) for c in sub)
    for r in range(12 if ctx.quick else 100):
        sid += 1
        eng = ("symdel", "kd", "hash", "symdel2")[r % 4]
        k = ctx.rng.choice([1, 2])
        mode = ctx.rng.choice(["lev", "lev", "hamming"])
        if eng == "hash":
            seqs = nc.repertoire(ctx.rng, ctx.rng.randint(8, 16), letters=sub, minlen=3, maxlen=7 if k == 1 else 5, maxmut=k + 1)
        else:
            seqs = nc.repertoire(ctx.rng, ctx.rng.randint(10, 30), maxmut=k + 1, maxlen=12)
        if eng == "symdel2":
            q = [ctx.rng.choice(seqs) for _ in range(4)] + [nc.mutate(ctx.rng, ctx.rng.choice(seqs), 1) for _ in range(3)]
            if r % 8 == 3:
                q = q + [ctx.rng.choice(seqs) for _ in range(len(seqs))]          # more queries than references
            inp = nc.make_inp("symdel", mode, k, seqs, seqs2=q)
        else:
            inp = nc.make_inp(eng, mode, k, seqs)
        sessions.append(nc.build_session(sid, inp, api=None if inp["engine"] != "symdel" else ("nearest_neighbor", "symdel")[sid % 2],
                                         with_internal=False, container=ctx.rng.choice(conts), output=ctx.rng.choice(["coo_matrix", "ndarray"])))
    npx.count_sessions(ctx, sessions)
    # limited searches (kdtree max_returns): the reported triplet set is not symmetric, so a transposed matrix shows
    for r in range(6 if ctx.quick else 40):
        sid += 1
        m = ctx.rng.choice([1, 1, 2])
        k = ctx.rng.choice([1, 2, 2])
        mode = ("lev", "hamming")[r % 3 == 2]
        seqs = nc.repertoire(ctx.rng, ctx.rng.randint(8, 24), maxmut=2, maxlen=11, families=3, same_length=(mode == "hamming"))
        inp = nc.make_inp("kd", mode, k, seqs)
        cont = ctx.rng.choice(conts)
        out = ("ndarray", "coo_matrix")[r % 2]
        ev_j = dict(op="JoinLimited", limit=m, raised=False, ret=[], exc="")
        ev_o = dict(op="OutputLimited", raised=False, ret=[], dense=[], exc="")
        try:
            ev_j["ret"] = nc.norm_triplets(nc.call_engine(inp, max_returns=m, container=cont), mode)
            ev_o["ret"] = ev_j["ret"]
            o = nc.call_engine(inp, max_returns=m, container=cont, output_type=out)
            ev_o["dense"] = nc.norm_dense(o.toarray() if out == "coo_matrix" else o, mode)
        except Exception as e:     # noqa: BLE001
            ev_o.update(raised=True, exc=f"{type(e).__name__}: {e}"[:200])
        sessions.append(dict(sid=sid, inp=inp, letters=nc.AA, api="kdtree", container=cont, output=out, kind="limited",
                             events=[dict(op="CheckInput", raised=False), dict(op="Build", logged=False), ev_j, ev_o]))
        ctx.case(dict(kind="max_returns/output", m=m, n=len(seqs), k=k, mode=mode, output=out, asymmetric=sorted((a, b) for a, b, _ in ev_j["ret"]) != sorted((b, a) for a, b, _ in ev_j["ret"])),
                 nontrivial=len(ev_j["ret"]) > 0)
    verdicts = nc.validate_sessions(ctx, sessions, letters=codes, invariants=("Exact", "NoRepeat", "DenseExact"))
    for s in sessions:
        api, drift = nc.failed_api_clauses(verdicts[s["sid"]])
        api = api + [x for x in drift if x[1] == "JoinLimited"]
        ctx.traces += 1
        for l, op, clause in api:
            ctx.violation(classify(s["inp"], s["container"], clause),
                          f"{npx.describe(s['inp'], s['letters'], s['api'])[:300]} container={s['container']} output={s['output']} event {op} clause {clause} {s['events'][l-1].get('exc','')}",
                          dict(kind="session", session=s, verdict=verdicts[s["sid"]]))
    # corrupted dense matrix must be rejected
    import copy
    c = copy.deepcopy(next(s for s in sessions if any(e["op"] == "Output" and not e["raised"] and e["dense"] and e["dense"][0] for e in s["events"])))
    c["sid"] = 990001
    o = next(e for e in c["events"] if e["op"] == "Output")
    o["dense"][0][-1] += 1
    v = nc.validate_sessions(ctx, [c], count=False, letters=codes)
    ok = any(cl == "entry_differs" for _, _, cl in nc.failed_api_clauses(v[c["sid"]])[0])
    ctx.negative.append(dict(kind="corrupted_trace", corruption="dense_entry", rejected=ok))
    if not ok:
        raise npx.MachineryFailure("corrupted dense matrix accepted")


def replay(doc):
    r = doc["replay"]
    if r.get("kind") == "variant":
        from ..core import Ctx
        ctx = Ctx("C10", "quick", 0)
        ctx._known = []
        check_variants(ctx, r["doc"], r["letters"], [r["container"]], 0)
        return 1 if ctx.violations else 0
    if r.get("kind") == "validation":
        import pyrepseq.nn as nn
        seqs, kw, s2 = concrete_args(r["argc"], r.get("variant", 0))
        fn = getattr(nn, r["fn"])
        if r["fn"] in ("symdel", "nearest_neighbor"):
            kw["seqs2"] = s2
        try:
            fn(seqs, **kw)
            raised = False
        except Exception:    # noqa: BLE001
            raised = True
        print("raised", raised, "expected", r["expect_error"])
        return 1 if raised != r["expect_error"] else 0
    return npx.replay_doc("C10", doc)
