"""C09 - TCR Levenshtein metrics are the stated weighted sum over chains and CDR loops."""
from __future__ import annotations

import copy
import json
import os
import shutil
import tempfile

import numpy as np

from .. import nncommon as nc
from .. import tracecommon as tcm
from .. import tlc
from ..core import MachineryFailure, mix

CLASSES = ["AlphaCdr3Levenshtein", "BetaCdr3Levenshtein", "Cdr3Levenshtein", "AlphaCdrLevenshtein", "BetaCdrLevenshtein", "CdrLevenshtein"]
ALPHA = ["TRAV1-1*01", "TRAV12-2*01", "TRAV40*01", "TRAV13-1*01", "TRAV21*01", "TRAV8-4*01"]
BETA = ["TRBV2*01", "TRBV20-1*01", "TRBV7-9*01", "TRBV5-1*01", "TRBV28*01", "TRBV6-5*01"]
INVS = ("CdistIsWeightedSum", "Decomposition", "WeightTable", "RejectIffNotTable")


def gene_table(alpha, beta):
    """CDR1 / CDR2 of the V alleles, read by the harness directly from the gene reference (tidytcells)."""
    from tidytcells import tr
    out = []
    for names in (alpha, beta):
        rows = []
        for v in names:
            d = tr.get_aa_sequence(v)
            rows.append([nc.enc(d.get("CDR1-IMGT", "")), nc.enc(d.get("CDR2-IMGT", ""))])
        out.append(rows)
    return out


def cfg_text(cdr3s="C3two", maxrows=1, maxrowsb=1, classes=CLASSES, ew="EW2", cw="CW2", lw="LW2", inclasses=("table",), mutations=(), invs=INVS, emit=True):
    t = "SPECIFICATION Spec\nCONSTANTS\n"
    t += f"  Cdr3s <- {cdr3s}\n  MaxRows = {maxrows}\n  MaxRowsB = {maxrowsb}\n"
    t += "  Classes = {" + ", ".join(f'"{k}"' for k in classes) + "}\n"
    t += f"  EditWs <- {ew}\n  ChainWs <- {cw}\n  LoopWs <- {lw}\n"
    t += "  InputClasses = {" + ", ".join(f'"{k}"' for k in inclasses) + "}\n"
    t += "  Mutations = {" + ", ".join(f'"{k}"' for k in mutations) + "}\n"
    for i in invs:
        t += f"INVARIANT {i}\n"
    if emit:
        t += "INVARIANT EmitCase\n"
    t += "PROPERTY InputsUnchanged\n"
    return t


def run_cfg(ctx, name, text, vfile, expect_violation=None, workers=16):
    d = tempfile.mkdtemp(prefix="pvcfg_")
    try:
        p = os.path.join(d, name + ".cfg")
        with open(p, "w") as f:
            f.write(text)
        return ctx.mc("MCTcrMetric", p, workers=workers, expect_violation=expect_violation, env={"PV_VDATA": vfile})
    finally:
        shutil.rmtree(d, ignore_errors=True)


def make_table(rows, variant, extra=True, genes=None):
    import pandas as pd
    alpha, beta = genes or (ALPHA, BETA)
    df = pd.DataFrame(dict(TRAV=[alpha[r[0] - 1] for r in rows], CDR3A=[nc.dec(r[1]) for r in rows], TRAJ=["TRAJ1*01"] * len(rows),
                           TRBV=[beta[r[2] - 1] for r in rows], CDR3B=[nc.dec(r[3]) for r in rows], TRBJ=["TRBJ1-1*01"] * len(rows)))
    if extra:
        df["clone_count"] = list(range(len(rows)))
    n = len(rows)
    v = variant % 4
    if v == 1:
        df.index = list(range(n))[::-1]
    elif v == 2:
        df.index = [7] * n                       # duplicated labels
    elif v == 3:
        df.index = [f"cell{i}" for i in range(n)]
    return df


_OBJECTS = {}


def make_metric(cls, wts):
    """one metric object per (class, weights), reused for every call with that configuration"""
    key = (cls, str(wts))
    if key not in _OBJECTS:
        _OBJECTS[key] = _new_metric(cls, wts)
    return _OBJECTS[key]


def _new_metric(cls, wts):
    from pyrepseq.metric import tcr_metric
    e, c, l = wts["edit"], wts["chain"], wts["loop"]
    kw = dict(insertion_weight=e[0], deletion_weight=e[1], substitution_weight=e[2])
    if cls in ("Cdr3Levenshtein", "CdrLevenshtein"):
        kw.update(alpha_weight=c[0], beta_weight=c[1])
    if cls in ("AlphaCdrLevenshtein", "BetaCdrLevenshtein", "CdrLevenshtein"):
        kw.update(cdr1_weight=l[0], cdr2_weight=l[1], cdr3_weight=l[2])
    return getattr(tcr_metric, cls)(**kw)


def invalid_input(inclass):
    import pandas as pd
    return {"list": ["CASSF", "CASSY"], "none": None, "ndarray": np.array([["TRAV1-1*01", "CAVF"]]),
            "no_tcr_column": pd.DataFrame(dict(x=[1, 2], y=["a", "b"]))}[inclass]


def replay_doc(ctx, doc, n, genes=None):
    cls, wts = doc["cls"], doc["wts"]
    rp = dict(kind="replay", doc=doc, genes=genes)
    m = make_metric(cls, wts)
    if doc["inclass"] != "table":
        bad = invalid_input(doc["inclass"])
        if doc["inclass"] == "no_tcr_column":
            import pandas as pd
            bad = [bad, bad.iloc[:1], bad.iloc[:0], pd.DataFrame(), pd.DataFrame(dict(cdr3b=["CASSF"]))][n % 5]        # any number of rows
        ctx.case(dict(cls=cls, invalid=doc["inclass"]), nontrivial=True)
        good = make_table([[1, [1, 0, 4], 1, [1, 0, 4]]], 0)
        for desc, call in ((f"calc_cdist_matrix({doc['inclass']}, table)", lambda: m.calc_cdist_matrix(bad, good)),
                           (f"calc_cdist_matrix(table, {doc['inclass']})", lambda: m.calc_cdist_matrix(good, bad)),
                           (f"calc_pdist_vector({doc['inclass']})", lambda: m.calc_pdist_vector(bad))):
            try:
                call()
                ctx.violation(f"{cls}/invalid_accepted/{doc['inclass']}", f"{cls}.{desc} returned a value instead of raising ValueError", rp)
            except ValueError:
                pass
            except Exception as e:     # noqa: BLE001
                ctx.violation(f"{cls}/invalid_not_value_error/{doc['inclass']}", f"{cls}.{desc} raised {type(e).__name__} instead of ValueError: {e}"[:300], rp)
        return
    A, B = make_table(doc["A"], n, genes=genes), make_table(doc["B"], n + 1, extra=bool(n % 2), genes=genes)
    if doc["A"] == doc["B"] and n % 2 == 0:
        B = A                                   # the very same object: cdist(X, X)
    a0, b0 = A.copy(deep=True), B.copy(deep=True)
    ctx.case(dict(cls=cls, wts=wts, A=A.values.tolist(), B=B.values.tolist()), nontrivial=any(v for row in doc["acc"] for v in row))
    try:
        got = np.asarray(m.calc_cdist_matrix(A, B))
    except Exception as e:     # noqa: BLE001
        ctx.violation(f"{cls}/raised", f"{cls}{wts}.calc_cdist_matrix raised {type(e).__name__}: {e}"[:400], rp)
        return
    if got.shape != (len(doc["A"]), len(doc["B"])) or not np.array_equal(got, np.array(doc["acc"])):
        ctx.violation(f"{cls}/entry_wrong", f"{cls}{wts}.calc_cdist_matrix({A[['TRAV','CDR3A','TRBV','CDR3B']].values.tolist()}, {B[['TRAV','CDR3A','TRBV','CDR3B']].values.tolist()}) = {got.tolist()} want {doc['acc']}"[:700], rp)
    if not (a0.equals(A) and b0.equals(B) and list(a0.columns) == list(A.columns) and list(a0.index) == list(A.index)):
        ctx.violation(f"{cls}/input_modified", f"{cls}.calc_cdist_matrix modified the caller's table", rp)


def make_sessions(ctx, n, nall):
    out = []
    c3pool = ["CASSF", "CASF", "CAVRDF", "CASSLGF", "", "CAWSVF", "CAVF", "CASSLGQAYEQYF"]
    for sid in range(1, n + 1):
        cls = CLASSES[sid % 6]
        wts = dict(edit=ctx.rng.choice([[1, 1, 1], [1, 2, 3], [3, 1, 2]]),
                   chain=ctx.rng.choice([[1, 1], [2, 3], [5, 1]]) if cls in ("Cdr3Levenshtein", "CdrLevenshtein") else [1, 1],
                   loop=ctx.rng.choice([[1, 1, 1], [5, 7, 11], [2, 1, 3]]) if cls in ("AlphaCdrLevenshtein", "BetaCdrLevenshtein", "CdrLevenshtein") else [1, 1, 1])
        def row():
            return [ctx.rng.randint(1, nall), nc.enc(nc.mutate(ctx.rng, ctx.rng.choice(c3pool), ctx.rng.randint(0, 2))),
                    ctx.rng.randint(1, nall), nc.enc(nc.mutate(ctx.rng, ctx.rng.choice(c3pool), ctx.rng.randint(0, 2)))]
        A = [row() for _ in range(ctx.rng.randint(1, 9))]
        m = make_metric(cls, wts)
        ev = dict(raised=False, value_error=False, modified=False)
        if sid % 2:
            B = [row() for _ in range(ctx.rng.randint(1, 6))]
            ev["op"] = "Cdist"
            ta, tb = make_table(A, sid), make_table(B, sid + 2)
            a0, b0 = ta.copy(deep=True), tb.copy(deep=True)
            try:
                ev["D"] = [[int(v) if float(v) == int(v) else -7 for v in r] for r in np.asarray(m.calc_cdist_matrix(ta, tb)).tolist()]
            except Exception as e:     # noqa: BLE001
                ev.update(raised=True, value_error=isinstance(e, ValueError), D=[], exc=f"{type(e).__name__}: {e}"[:200])
            ev["modified"] = not (a0.equals(ta) and b0.equals(tb))
        else:
            B = A
            ev["op"] = "Pdist"
            ta = make_table(A, sid)
            a0 = ta.copy(deep=True)
            try:
                ev["vec"] = [int(v) if float(v) == int(v) else -7 for v in np.asarray(m.calc_pdist_vector(ta)).tolist()]
            except Exception as e:     # noqa: BLE001
                ev.update(raised=True, value_error=isinstance(e, ValueError), vec=[], exc=f"{type(e).__name__}: {e}"[:200])
            ev["modified"] = not a0.equals(ta)
            # ... and the full self-comparison matrix cdist(X, X) with the same object
            ev2 = dict(op="Cdist", raised=False, value_error=False, modified=False)
            try:
                ev2["D"] = [[int(v) if float(v) == int(v) else -7 for v in r] for r in np.asarray(m.calc_cdist_matrix(ta, ta)).tolist()]
            except Exception as e:     # noqa: BLE001
                ev2.update(raised=True, value_error=isinstance(e, ValueError), D=[], exc=f"{type(e).__name__}: {e}"[:200])
            out.append(dict(sid=sid, cls=cls, wts=wts, inclass="table", A=A, B=B, events=[ev, ev2]))
            continue
        out.append(dict(sid=sid, cls=cls, wts=wts, inclass="table", A=A, B=B, events=[ev]))
    return out


def lifted_big(ctx, s, r, force=None):
    """large tables whose rows are copies of the rows of an ACCEPTED session: the accepted matrix, lifted"""
    from .. import lifted as lf
    ev = next(e for e in s["events"] if e["op"] == "Cdist")
    A, B = s["A"], s["B"]
    ba, bb = [(lf.boundary_size(r), 60), (50, lf.boundary_size(r + 2)), (1025, 1025)][r % 3]
    if force:
        ba, bb = force
    ia, ib = lf.index_map(ctx.rng, len(A), ba), lf.index_map(ctx.rng, len(B), bb)
    want = lf.lift_matrix(ev["D"], ia, ib)
    m = make_metric(s["cls"], s["wts"])
    ta, tb = make_table([A[i] for i in ia], r), make_table([B[j] for j in ib], r + 1)
    desc = f"{s['cls']}{s['wts']}.calc_cdist_matrix on {ba} x {bb} copies of the rows of session {s['sid']}"
    rp = dict(kind="lifted", session=s, r=r)
    ctx.case(dict(kind="lifted", call=desc), nontrivial=True)
    try:
        got = np.asarray(m.calc_cdist_matrix(ta, tb), dtype=float)
    except Exception as e:      # noqa: BLE001
        ctx.violation(f"{s['cls']}/large-input/raised", f"{desc} raised {type(e).__name__}: {e}"[:400], rp)
        return
    if got.shape != want.shape or not np.array_equal(got, want):
        bad = np.argwhere(got != want)[:1].tolist() if got.shape == want.shape else "shape"
        ctx.violation(f"{s['cls']}/large-input/entry_wrong", f"{desc}: differs from the lifted accepted matrix at {bad}"[:400], rp)
    if s["events"][0]["op"] == "Pdist" and s["wts"]["edit"][0] == s["wts"]["edit"][1]:
        # symmetric edit weights: the condensed vector of the large table is the upper triangle of the lifted square matrix
        want_v = lf.lift_condensed(np.asarray(ev["D"], dtype=float), ia)
        try:
            got_v = np.asarray(m.calc_pdist_vector(ta), dtype=float)
            if got_v.shape != want_v.shape or not np.array_equal(got_v, want_v):
                ctx.violation(f"{s['cls']}/large-input/not_condensed_upper_triangle", f"{desc}: calc_pdist_vector differs from the lifted accepted matrix"[:400], rp)
        except Exception as e:      # noqa: BLE001
            ctx.violation(f"{s['cls']}/large-input/raised", f"{desc} (pdist) raised {type(e).__name__}: {e}"[:400], rp)


def validate(ctx, sessions, vfile, count=True):
    consts = "  Cdr3s = {}\n  MaxRows = 1\n  MaxRowsB = 1\n  Classes = {}\n  EditWs = {}\n  ChainWs = {}\n  LoopWs = {}\n  InputClasses = {}\n  Mutations = {}"
    os.environ["PV_VDATA"] = vfile
    try:
        return tcm.validate(ctx, "TraceTcrMetric", sessions, constants=consts, invariants=("CdistIsWeightedSum", "WeightTable"), count=count)
    finally:
        os.environ.pop("PV_VDATA", None)


def _replay_item(ctx, i, item):
    replay_doc(ctx, item[1], item[0], genes=item[2])
    ctx.traces += 1


def run(ctx):
    ctx.rule = ("TcrMetric.tla (Validate, ExpandV, one ColumnCdist per column in scope with the chain / loop weight selected from the column name, "
                "sum) is model-checked over rows built from real V alleles (CDR1 / CDR2 handed over as data, one allele without CDR2) and small "
                "CDR3 sets, all six classes and prime-valued weights (CdistIsWeightedSum, Decomposition, WeightTable, RejectIffNotTable, "
                "InputsUnchanged; swapped chain weights rejected). Every terminal behaviour is executed on the real classes with default / "
                "permuted / duplicated / string index labels and extra columns; random tables (cdist and pdist) are validated by "
                "TraceTcrMetric.tla. Non-trivial = a non-zero distance.")
    ctx.assumptions = ["the V-allele -> CDR1/CDR2 map is tidytcells data, read by the harness independently of pyrepseq's lookup path"]
    d = tempfile.mkdtemp(prefix="pvv_")
    try:
        vall = os.path.join(d, "vall.json")
        json.dump(gene_table(ALPHA, BETA), open(vall, "w"))
        q = ctx.quick
        small2 = ([ALPHA[0], ALPHA[2]], BETA[:2])                                             # ALPHA[2] has no CDR2
        small3 = (ALPHA[:3], BETA[:3])
        vfiles = {}
        for nm, genes in (("v2", small2), ("v3", small3)):
            vfiles[nm] = os.path.join(d, nm + ".json")
            json.dump(gene_table(*genes), open(vfiles[nm], "w"))
        one_classes = ("table", "list", "none", "ndarray", "no_tcr_column")
        if q:
            runs = [("one", cfg_text(maxrows=1, maxrowsb=1, ew="EW1", inclasses=one_classes), small2, "v2"),
                    ("two", cfg_text(cdr3s="C3two", maxrows=2, maxrowsb=1, classes=["Cdr3Levenshtein", "CdrLevenshtein"], ew="EW2", cw="CW2", lw="LW1"), small2, "v2")]
        else:
            runs = [("one", cfg_text(maxrows=1, maxrowsb=1, ew="EW2", inclasses=one_classes), small3, "v3"),
                    ("two", cfg_text(cdr3s="C3two", maxrows=2, maxrowsb=1, classes=["Cdr3Levenshtein", "CdrLevenshtein"], ew="EW2", cw="CW2", lw="LW2"), small2, "v2"),
                    ("two2", cfg_text(cdr3s="C3two", maxrows=2, maxrowsb=2, classes=["Cdr3Levenshtein", "CdrLevenshtein"], ew="EW1", cw="CW2", lw="LW1"), small2, "v2")]
        n = 0
        for name, text, genes, vf in runs:
            res = run_cfg(ctx, name, text, vfiles[vf])
            items = []
            for doc in ctx.sample([d_ for d_ in res.printed if "cls" in d_], 30000):
                n += 1
                if doc["inclass"] == "table" and n % ((2 if name == "one" else 12) if q else 2):
                    continue
                items.append((mix(n), doc, genes))
            res.printed = []
            ctx.parallel(items, _replay_item)
        ctx.exhaustive = True
        sessions = make_sessions(ctx, 40 if q else 400, len(ALPHA))
        verd = validate(ctx, sessions, vall)
        nlift, pd_big = 0, False
        for s in sessions:
            ctx.traces += 1
            ev = s["events"][0]
            ctx.case(dict(kind="session:" + ev["op"], cls=s["cls"], wts=s["wts"], rows=len(s["A"]), rowsB=len(s["B"])), nontrivial=True)
            if not tcm.failures(verd[s["sid"]]) and not any(e["raised"] for e in s["events"]) and nlift < (3 if q else 18):
                nlift += 1
                lifted_big(ctx, s, nlift)
            if (not pd_big and ev["op"] == "Pdist" and s["wts"]["edit"][0] == s["wts"]["edit"][1] and not tcm.failures(verd[s["sid"]])
                    and not any(e["raised"] for e in s["events"]) and len(s["A"]) >= 3):
                # one condensed vector of more than two thousand rows (two million entries) in every run
                pd_big = True
                lifted_big(ctx, s, nlift + 1, force=((2049, 2500, 4097)[ctx.seed % 3] if q else 4097, 40))
            for l, op, clause in tcm.failures(verd[s["sid"]]):
                ctx.violation(f"{s['cls']}/session/{op}/{clause}", f"{s['cls']}{s['wts']} {op} on {len(s['A'])}x{len(s['B'])} rows: {clause} {ev.get('exc','')}"[:400],
                              dict(kind="session", session=s))
        # corrupted traces
        bad = []
        for s in sessions:
            ev = s["events"][0]
            if ev["op"] == "Pdist" and len(ev.get("vec", [])) >= 3 and len(set(ev["vec"])) > 1 and not any(w == "not_condensed_upper_triangle" for _, w in bad):
                c = copy.deepcopy(s); c["sid"] = 990001; v = c["events"][0]["vec"]
                i = next(i for i in range(len(v) - 1) if v[i] != v[i + 1]); v[i], v[i + 1] = v[i + 1], v[i]
                bad.append((c, "not_condensed_upper_triangle"))
            if ev["op"] == "Cdist" and ev.get("D") and not any(w == "entry_wrong" for _, w in bad):
                c = copy.deepcopy(s); c["sid"] = 990002; c["events"][0]["D"][0][0] += 1
                bad.append((c, "entry_wrong"))
        if bad:
            v2 = validate(ctx, [b for b, _ in bad], vall, count=False)
            for c, want in bad:
                ok = any(cl == want for _, _, cl in tcm.failures(v2[c["sid"]]))
                ctx.negative.append(dict(kind="corrupted_trace", corruption=want, rejected=ok))
                if not ok:
                    raise MachineryFailure(f"corrupted TCR metric trace ({want}) accepted")
        run_cfg(ctx, "NEG_swap", cfg_text(maxrows=1, maxrowsb=1, classes=["Cdr3Levenshtein"], ew="EW1", cw="CW2", lw="LW1", mutations=["swap_chain_weights"],
                                          invs=("CdistIsWeightedSum", "WeightTable"), emit=False), vfiles["v2"],
                expect_violation=["CdistIsWeightedSum", "WeightTable"], workers=4)
    finally:
        shutil.rmtree(d, ignore_errors=True)


def replay(doc):
    from ..core import Ctx
    ctx = Ctx("C09", "quick", 0)
    ctx._known = []
    r = doc["replay"]
    if r.get("kind") == "replay":
        for n in range(4):
            replay_doc(ctx, r["doc"], n, genes=r.get("genes"))
        return 1 if ctx.violations else 0
    print("re-run ./check C09")
    return 1
