"""C06 - pc and its variance estimator are unbiased under multinomial sampling."""
from __future__ import annotations

import math

import numpy as np

from .. import estim
from ..core import MachineryFailure

INVS = ("MeanUnbiased", "CrossUnbiased", "VarUnbiased", "PcInUnit", "BigAgrees")


LABELS = ["CASS", "CASSL", "CASSLG", "CASSLGQ", "C", "CASSLGQAYEQYF", "CA"]      # nested prefixes, different lengths


def sample_with_counts(n, rng):
    x = [LABELS[i % len(LABELS)] + ("" if i < len(LABELS) else str(i)) for i, c in enumerate(n) for _ in range(c)]
    rng.shuffle(x)
    return x


def check(ctx, desc, fn, want, key, rp, sqrt=False):
    try:
        got = fn()
    except Exception as e:      # noqa: BLE001
        ctx.violation(f"{key}/raised", f"{desc} raised {type(e).__name__}: {e}"[:400], rp)
        return
    if sqrt:
        if estim.is_nan_rat(want) or want[0] < 0:
            ok = isinstance(got, float) and math.isnan(got) or (hasattr(got, "dtype") and np.isnan(got))
        elif want[0] == 0:
            # exact variance 0 (degenerate sample): the float evaluation may land a rounding error below zero, whose
            # square root is nan - not a property violation (float noise is outside the model, DESIGN.md section 6)
            ok = math.isnan(float(got)) or abs(float(got)) < 1e-6
        else:
            ok = estim.close(float(got) ** 2, want, tol=1e-8)
    else:
        ok = estim.close(got, want)
    if not ok:
        ctx.violation(f"{key}/wrong_value", f"{desc} = {got!r} want {'sqrt of ' if sqrt else ''}{want[0]}/{want[1]}"[:400], rp)


def judge(ctx, kind, n, m, res, rp):
    import pyrepseq as prs
    import warnings
    warnings.filterwarnings("ignore")
    nz = [c for c in n if c > 0]
    if kind in ("mean", "var"):
        check(ctx, f"pc_n({n})", lambda: prs.pc_n(n), res["pc"], "pc_n", rp)
        check(ctx, f"pc_n(np.array({nz}))", lambda: prs.pc_n(np.array(nz)), res["pc"], "pc_n", rp)
        for dt in (np.int8, np.uint8, np.int16, np.int32):
            if max(n) * max(max(n) - 1, 1) <= np.iinfo(dt).max:          # every term n_i (n_i - 1) fits: only the SUM could wrap
                check(ctx, f"pc_n(np.array({nz}, dtype={dt.__name__}))", lambda: prs.pc_n(np.array(nz, dtype=dt)), res["pc"], f"pc_n/{dt.__name__}", rp)
        x = sample_with_counts(n, ctx.rng)
        check(ctx, f"pc(sample with counts {n})", lambda: prs.pc(x), res["pc"], "pc", rp)
        xi = np.repeat(np.arange(len(n)) + 3, n)
        check(ctx, f"pc(int sample with counts {n})", lambda: prs.pc(xi), res["pc"], "pc/int", rp)
        import pandas as pd
        rows = [(LABELS[i % len(LABELS)] + str(i), None if i % 2 else "CAV" + str(i)) for i, c in enumerate(n) for _ in range(c)]
        ctx.rng.shuffle(rows)
        tab = pd.DataFrame(rows, columns=["CDR3B", "CDR3A"])
        check(ctx, f"pc(table sample with counts {n}, every second category with a missing chain)", lambda: prs.pc(tab), res["pc"], "pc/table_missing", rp)
        # legacy (alpha chains, beta chains) tuple of two Series whose index labels differ (one chain was sorted / reversed /
        # filtered without reset_index): chains are paired by position
        pairs = [("CAV" + str(i), LABELS[i % len(LABELS)] + str(i)) for i, c in enumerate(n) for _ in range(c)]
        ctx.rng.shuffle(pairs)
        sa_ = pd.Series([a for a, _ in pairs], index=[f"a{j}" for j in range(len(pairs))] if len(pairs) % 2 else list(range(len(pairs))))
        sb_ = pd.Series([b for _, b in pairs], index=list(range(len(pairs)))[::-1])
        check(ctx, f"pc((Series alpha, Series beta with other index labels)) sample with counts {n}", lambda: prs.pc((sa_, sb_)), res["pc"], "pc/tuple_series", rp)
        # categories whose cells run into each other when written without a separator: ("1", "11..1"), ("11", "1..1"), ...
        K = len(n)
        amb = [("1" * (i + 1), "1" * (K - i)) for i, c in enumerate(n) for _ in range(c)]
        ctx.rng.shuffle(amb)
        check(ctx, f"pc(table sample with counts {n}, rows ('1'*(i+1), '1'*(K-i)))", lambda: prs.pc(pd.DataFrame(amb, columns=["a", "b"])), res["pc"], "pc/table_ambiguous", rp)
        check(ctx, f"pc(table sample with counts {n}, integer cells (1..1, 1..1))", lambda: prs.pc(pd.DataFrame([(int(a), int(b)) for a, b in amb], columns=["a", "b"])), res["pc"], "pc/table_ambiguous_int", rp)
    if kind == "var":
        check(ctx, f"varpc_n(np.array({n}))", lambda: prs.varpc_n(np.array(n)), res["var"], "varpc_n", rp)
        own = np.array(n, dtype=float)
        keep = own.copy()
        check(ctx, f"varpc_n(float array {n})", lambda: prs.varpc_n(own), res["var"], "varpc_n/float", rp)
        check(ctx, f"pc_n(float array {n}) after varpc_n", lambda: prs.pc_n(own), res["pc"], "pc_n/float", rp)
        if not np.array_equal(own, keep):
            ctx.violation("varpc_n/argument_mutated", f"varpc_n / pc_n modified the caller's count array {keep.tolist()} -> {own.tolist()}", rp)
        check(ctx, f"varpc_n(np.array({nz}))", lambda: prs.varpc_n(np.array(nz)), res["var"], "varpc_n", rp)
        check(ctx, f"stdpc_n(np.array({n}))", lambda: prs.stdpc_n(np.array(n)), res["var"], "stdpc_n", rp, sqrt=True)
        for dt in (np.int16, np.int32):
            if max(n) ** 3 <= np.iinfo(dt).max:
                check(ctx, f"varpc_n(np.array({n}, dtype={dt.__name__}))", lambda: prs.varpc_n(np.array(n, dtype=dt)), res["var"], f"varpc_n/{dt.__name__}", rp)
        x = sample_with_counts(n, ctx.rng)
        check(ctx, f"stdpc(sample with counts {n})", lambda: prs.stdpc(x), res["var"], "stdpc", rp, sqrt=True)
    if kind == "cross":
        lab = lambda i: LABELS[i % len(LABELS)] + ("" if i < len(LABELS) else str(i))     # noqa: E731
        x = [lab(i) for i, c in enumerate(n) for _ in range(c)]
        y = [lab(i) for i, c in enumerate(m) for _ in range(c)]
        ctx.rng.shuffle(x)
        ctx.rng.shuffle(y)
        check(ctx, f"pc(sample {n}, sample {m})", lambda: prs.pc(x, y), res["pc"], "pc/two", rp)
        check(ctx, f"pc(np.array sample {m}, np.array sample {n})", lambda: prs.pc(np.array(y), np.array(x)), res["pc"], "pc/two/ndarray", rp)
        # integer-coded categories (the smallest code present differs between the samples whenever one of them misses category 0)
        xi = np.repeat(np.arange(len(n)) + 3, n)
        yi = np.repeat(np.arange(len(m)) + 3, m)
        ctx.rng.shuffle(xi)
        check(ctx, f"pc(int sample {n}, int sample {m})", lambda: prs.pc(xi, yi), res["pc"], "pc/two/int", rp)
        import pandas as pd
        K = max(len(n), len(m))
        ta = pd.DataFrame([("1" * (i + 1), "1" * (K - i)) for i, c in enumerate(n) for _ in range(c)], columns=["a", "b"])
        tb = pd.DataFrame([("1" * (i + 1), "1" * (K - i)) for i, c in enumerate(m) for _ in range(c)], columns=["a", "b"])
        check(ctx, f"pc(table sample {n}, table sample {m}; rows ('1'*(i+1), '1'*(K-i)))", lambda: prs.pc(ta, tb), res["pc"], "pc/two/table_ambiguous", rp)
        check(ctx, f"pc(int list {m}, int list {n})", lambda: prs.pc([int(v) for v in yi], [int(v) * 1 for v in xi]), res["pc"], "pc/two/intlist", rp)


def judge_big(ctx, s, res):
    import pyrepseq as prs
    n, m, kind = s["n"], s["m"], s["kind"]
    rp = dict(kind="big", session=s)

    def chk(desc, fn, want, key, sqrt=False):
        try:
            got = float(fn())
        except Exception as e:      # noqa: BLE001
            ctx.violation(f"{key}/large-sample/raised", f"{desc} raised {type(e).__name__}: {e}"[:300], rp)
            return
        if sqrt:
            got = got * got
        if not estim.close_big(got, want):
            ctx.violation(f"{key}/large-sample/wrong_value", f"{desc} = {got!r} want {'(squared) ' if sqrt else ''}{float(estim.big_fraction(want))!r} (N = {sum(n)})"[:300], rp)
    if kind in ("bigmean", "bigvar"):
        chk(f"pc_n(np.array({n}))", lambda: prs.pc_n(np.array(n)), res["pc"], "pc_n")
        chk(f"pc_n({n})", lambda: prs.pc_n(list(n)), res["pc"], "pc_n")
        if sum(n) <= 300000:
            x = np.repeat(np.arange(len(n)), n)
            ctx.rng.shuffle(x)
            chk(f"pc(sample with counts {n})", lambda: prs.pc(x), res["pc"], "pc")
    if kind == "bigvar":
        chk(f"varpc_n(np.array({n}))", lambda: prs.varpc_n(np.array(n)), res["var"], "varpc_n")
        chk(f"varpc_n(float array {n})", lambda: prs.varpc_n(np.array(n, dtype=float)), res["var"], "varpc_n/float")
        chk(f"stdpc_n(np.array({n}))"[:200], lambda: prs.stdpc_n(np.array(n)), res["var"], "stdpc_n", sqrt=True)
        if s.get("diverse"):
            xs = np.repeat(np.arange(len(n)), n)
            ctx.rng.shuffle(xs)
            chk(f"stdpc(sample of {len(xs)} with {len(n)} categories)", lambda: prs.stdpc(xs), res["var"], "stdpc", sqrt=True)
    if kind == "bigcross" and sum(n) <= 300000 and sum(m) <= 400000:
        x = np.repeat(np.arange(len(n)), n)
        y = np.repeat(np.arange(len(m)), m)
        chk(f"pc(sample {n}, sample {m})", lambda: prs.pc(x, y), res["pc"], "pc/two")


def run(ctx):
    ctx.rule = ("Estimators.tla: for every count vector n with |n| = N <= bound, K <= bound the coefficient identities that are equivalent to "
                "E[pc_n] = sum p^2, E[pc(a,b)] = sum p q and E[varpc_n] = Var(pc) are checked by TLC in exact rationals (the expectation "
                "over ALL p is a polynomial identity; comparing coefficients of p^n reduces it to one integer identity per count vector). "
                "VarPcN is the transcription of varpc_n; every enumerated count vector is executed on pc_n, pc, varpc_n, stdpc_n, stdpc and "
                "compared with the spec's rationals; larger sampled sizes are evaluated by TLC on harness-chosen inputs. Non-trivial = at least two categories.")
    ctx.assumptions = ["unbiasedness is established per (N, K) within the bounds only; beyond them the code is only bound to the transcribed formula on samples",
                       "square roots are compared squared"]
    q = ctx.quick
    runs = [("mean", estim.cfg_text(["mean"], maxn=8 if q else 10, maxk=3 if q else 4, invs=INVS)),
            ("var", estim.cfg_text(["var"], maxn=7 if q else 8, maxk=3 if q else 4, invs=INVS)),
            ("cross", estim.cfg_text(["cross"], maxn2=4 if q else 5, maxk=3, invs=INVS))]
    for name, text in runs:
        res = estim.run_cfg(ctx, name, text)
        for doc in res.printed:
            if "kind" not in doc:
                continue
            ctx.case(dict(kind=doc["kind"], n=doc["n"], m=doc["m"], spec=doc["res"]), nontrivial=sum(1 for c in doc["n"] if c) > 1)
            judge(ctx, doc["kind"], doc["n"], doc["m"], doc["res"], dict(kind="replay", doc=doc))
            ctx.traces += 1
    ctx.exhaustive = True
    # sampled larger sizes: TLC evaluates the spec on harness-chosen count vectors
    sessions = []
    for sid in range(1, (30 if q else 300) + 1):
        k = ("mean", "var", "cross")[sid % 3]
        K = ctx.rng.randint(2, 6)
        N = ctx.rng.randint(4, 12)
        cuts = sorted(ctx.rng.randint(0, N) for _ in range(K - 1))
        n = [b - a for a, b in zip([0] + cuts, cuts + [N])]
        if k == "mean" and sid % 4 == 0:
            n = [ctx.rng.randint(8, 11) for _ in range(ctx.rng.randint(2, 4))]      # terms fit int8, their sum does not
        m = []
        if k == "cross":
            N2 = ctx.rng.randint(1, 12)
            cuts = sorted(ctx.rng.randint(0, N2) for _ in range(K - 1))
            m = [b - a for a, b in zip([0] + cuts, cuts + [N2])]
        sessions.append(dict(sid=sid, kind=k, n=n, m=m))
    # count vectors aligned to K categories (zeros included) with K = N: the length of the vector is NOT the number of distinct elements
    for j, n in enumerate(([2, 2, 0, 0], [3, 1, 0, 0], [1, 1, 1, 1], [2, 0, 0, 3, 0, 1], [0, 0, 5, 0, 0], [2, 1, 1, 0, 1], [4, 0, 0, 0], [2, 2, 1, 0, 0], [3, 0, 2, 1, 0, 0])):
        sessions.append(dict(sid=500 + j, kind="var", n=n, m=[]))
    out = estim.evaluate(ctx, sessions, invariants=("PcInUnit",))   # the identities overflow 32-bit integers beyond the exhaustive bounds
    for s in sessions:
        ctx.case(dict(kind="sampled:" + s["kind"], n=s["n"], m=s["m"], spec=out[s["sid"]]), nontrivial=True)
        judge(ctx, s["kind"], s["n"], s["m"], out[s["sid"]], dict(kind="sampled", session=s, spec=out[s["sid"]]))
        ctx.traces += 1
    # self-test of the specification's arbitrary-precision arithmetic against TLC's own integers (Base = 10: every carry path)
    import os, tempfile, shutil
    d = tempfile.mkdtemp(prefix="pvcfg_")
    try:
        p = os.path.join(d, "MCBigInt.cfg")
        with open(p, "w") as f:
            f.write(f"SPECIFICATION Spec\nCONSTANTS\n  MaxAbs = {30 if q else 130}\n" + "".join(
                f"INVARIANT {i}\n" for i in ("AddOK", "SubOK", "MulOK", "CmpOK", "RoundTrip", "QAddOK", "QSubOK", "QMulOK", "QCmpOK")))
        ctx.mc("MCBigInt", p, workers=8)
    finally:
        shutil.rmtree(d, ignore_errors=True)
    # realistic sample sizes (10^4 .. 10^7 sequences): products such as N(N-1)(N-2)(N-3) leave 32 and then 64 bits; the
    # specification evaluates the same closed forms in arbitrary precision (BigInt.tla; BigAgrees ties them to the forms above)
    big = []
    for r in range(8 if q else 60):
        k = ("bigvar", "bigvar", "bigmean", "bigcross", "bigvar")[r % 5]
        N = [55111, 60000, 100003, 46342, 70000, 250000, 2200000, 9000000][r % 8] + ctx.rng.randint(0, 50)
        K = ctx.rng.randint(2, 5)
        w = [ctx.rng.random() ** 3 + 0.01 for _ in range(K)]
        n = [max(1, int(N * x / sum(w))) for x in w]
        n[0] += N - sum(n)
        n += [1] * ctx.rng.randint(0, 3)
        m = []
        if k == "bigcross":
            m = [ctx.rng.randint(1, 90000) for _ in n]
        big.append(dict(sid=7000 + r, kind=k, n=n, m=m))
    # diverse samples: hundreds of categories, nearly all seen once, a handful of coincidences - the variance is tiny (1e-8 .. 1e-10)
    # but positive, and its square root is what stdpc_n / stdpc report
    for j, (trip, dbl, N) in enumerate(((1, 6, 300), (2, 20, 1200)) if q else ((1, 6, 300), (2, 20, 1200), (0, 3, 400), (3, 40, 5000))):
        n = [3] * trip + [2] * dbl
        n += [1] * (N - sum(n))
        big.append(dict(sid=7900 + j, kind="bigvar", n=n, m=[], diverse=True))
    bout = estim.evaluate(ctx, big)
    for s in big:
        ctx.case(dict(kind="sampled:" + s["kind"], n=s["n"], m=s["m"]), nontrivial=True)
        judge_big(ctx, s, bout[s["sid"]])
        ctx.traces += 1
    # a changed coefficient in the variance formula must break the identity
    estim.run_cfg(ctx, "NEG_varcoeff", estim.cfg_text(["var"], maxn=6, maxk=2, mutations=["var_coeff"], invs=("VarUnbiased",), emit=False),
                  expect_violation=["VarUnbiased"], workers=4)


def replay(doc):
    from ..core import Ctx
    ctx = Ctx("C06", "quick", 0)
    ctx._known = []
    r = doc["replay"]
    if r.get("kind") == "big":
        out = estim.evaluate(ctx, [r["session"]], count=False)
        judge_big(ctx, r["session"], out[r["session"]["sid"]])
        return 1 if ctx.violations else 0
    d = r.get("doc") or dict(kind=r["session"]["kind"], n=r["session"]["n"], m=r["session"]["m"], res=r["spec"])
    judge(ctx, d["kind"], d["n"], d["m"], d["res"], r)
    return 1 if ctx.violations else 0
