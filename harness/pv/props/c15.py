"""C15 - clusters are the connected components / SciPy clusters of the stated distances."""
from __future__ import annotations

import copy
import os
import shutil
import tempfile

import numpy as np

from .. import nncommon as nc
from .. import tracecommon as tcm
from ..core import MachineryFailure, mix

INVS = ("LabelsAreComponents", "ReportedNonSingletons", "SingleLinkageIsComponents", "PartitionOK")
TRACE_CONSTS = "  MaxNodes = 1\n  MaxD = 0\n  Thresholds = {0}\n  Kinds = {\"cc\"}\n  Mutations = {}"


def cfg_text(kinds, maxnodes=4, maxd=2, thresholds=(0, 1, 2), mutations=(), invs=INVS, emit=True):
    t = f"SPECIFICATION Spec\nCONSTANTS\n  MaxNodes = {maxnodes}\n  MaxD = {maxd}\n  Thresholds = {{{', '.join(map(str, thresholds))}}}\n"
    t += "  Kinds = {" + ", ".join(f'"{k}"' for k in kinds) + "}\n"
    t += "  Mutations = {" + ", ".join(f'"{k}"' for k in mutations) + "}\n"
    for i in invs:
        t += f"INVARIANT {i}\n"
    if emit:
        t += "INVARIANT EmitCase\n"
    t += "PROPERTY MergeMonotone\n"
    return t


def run_cfg(ctx, name, text, expect_violation=None, workers=16):
    d = tempfile.mkdtemp(prefix="pvcfg_")
    try:
        p = os.path.join(d, name + ".cfg")
        with open(p, "w") as f:
            f.write(text)
        return ctx.mc("MCClustering", p, workers=workers, expect_violation=expect_violation)
    finally:
        shutil.rmtree(d, ignore_errors=True)


def partition_of(pairs):
    """[(node, cluster)] -> frozenset of frozensets"""
    by = {}
    for node, c in pairs:
        by.setdefault(c, set()).add(node)
    return frozenset(frozenset(v) for v in by.values())


def run_graph(nodes, triplets, method, **kw):
    """graph_clustering on the real code -> (pairs [(position1based, cluster)], labels_ok)"""
    import pandas as pd
    import pyrepseq as prs
    plain = list(nodes)
    n = len(plain)
    cont = kw.pop("container", "list")
    given = {"list": lambda: list(plain), "tuple": lambda: tuple(plain), "ndarray": lambda: np.array(plain, dtype=object),
             "series": lambda: pd.Series(plain, dtype=object),
             "series_perm": lambda: pd.Series(plain, index=list(range(n))[::-1], dtype=object),
             "series_shift": lambda: pd.Series(plain, index=range(7, 7 + n), dtype=object),
             "series_str": lambda: pd.Series(plain, index=[f"cell{i}" for i in range(n)], dtype=object)}[cont]()
    df = prs.graph_clustering(triplets, given, clustering=method, **kw)
    if isinstance(given, pd.Series):
        where = {lab: i for i, lab in enumerate(given.index)}          # rows are labelled like the caller's Series
        pos = [where.get(lab, -1) for lab in df.index]
    else:
        pos = [int(i) for i in df.index]
    labels_ok = (all(0 <= p < n for p in pos) and all(df["node"].iloc[k] == plain[p] for k, p in enumerate(pos))
                 and list(df.columns)[:2] == ["node", "cluster"] and not df["cluster"].isna().any())
    return [[p + 1, int(c)] for p, c in zip(pos, df["cluster"]) if 0 <= p < n and c == c], labels_ok


NODE_CONTAINERS = ["list", "tuple", "ndarray", "series", "series_perm", "series_shift", "series_str"]


def triplets_from_edges(edges, rng, as_array, orient="both", selfloops=0):
    """neighbour lists as the search functions produce them: both orientations (symdel, hash_based, kdtree) or, with
    max_returns, possibly one orientation only - in either order"""
    t = []
    for i, j in edges:
        d = rng.choice([0, 1, 2])
        o = orient if orient != "mixed" else rng.choice(["both", "ij", "ji"])
        if o in ("both", "ij"):
            t.append((i - 1, j - 1, d))
        if o in ("both", "ji"):
            t.append((j - 1, i - 1, d))
    if selfloops:
        t.extend((i, i, 0) for i in range(selfloops))          # a node is not its own neighbour: self-pairs connect nothing
    rng.shuffle(t)
    return np.array(t) if (as_array and t) else t


def replay_cc(ctx, doc, k):
    n, edges = doc["n"], doc["edges"]
    nodes = [["CASSF", "CASSY", "CASSF", "CAWF", "CATTF"][i % 5] + ("" if k % 2 else str(i)) for i in range(n)]     # duplicates allowed
    orient = ("both", "ji", "mixed", "ij")[k % 4]
    trip = triplets_from_edges(edges, ctx.rng, k % 3 == 0, orient, selfloops=(n if (k // 7) % 3 == 1 else 0))
    want = partition_of([(i, doc["label"][i - 1]) for i in doc["reported"]])
    rp = dict(kind="replay", doc=doc, k=k)
    ctx.case(dict(fn="graph_clustering/cc", n=n, edges=edges), nontrivial=len(edges) > 0 and len(doc["reported"]) < n)
    try:
        cont = NODE_CONTAINERS[(k // 5) % len(NODE_CONTAINERS)]
        pairs, labels_ok = run_graph(nodes, trip, "cc", container=cont)
    except Exception as e:      # noqa: BLE001
        ctx.violation(f"graph_clustering/cc/raised:{type(e).__name__}" + ("/no-edges" if not edges else ""),
                      f"graph_clustering({list(map(tuple, trip)) if len(trip) else []}, {nodes}, 'cc') raised {type(e).__name__}: {e}"[:400], rp)
        return
    if partition_of(pairs) != want:
        ctx.violation("graph_clustering/cc/not_components", f"graph_clustering(edges={edges}, n={n}, nodes as {cont}) clusters {sorted(map(sorted, partition_of(pairs)))} want {sorted(map(sorted, want))}", rp)
    if not labels_ok:
        ctx.violation("graph_clustering/cc/labels_not_callers", f"graph_clustering(edges={edges}, nodes={nodes} as {cont}): node labels are not the caller's", rp)


def replay_sl(ctx, doc, k):
    """single linkage at t through hierarchical_clustering with a metric object returning the model's distance matrix"""
    import pyrepseq as prs
    from pyrepseq.metric import Metric
    n, t = doc["n"], doc["t"]
    if n < 2:
        return
    dm = {(a, b): d for a, b, d in doc["D"]}

    class Table(Metric):
        name = "table"

        def calc_cdist_matrix(self, a, b):
            raise NotImplementedError

        def calc_pdist_vector(self, xs):
            xs = list(xs)
            return np.array([float(dm[(xs[i], xs[j])]) for i in range(len(xs)) for j in range(i + 1, len(xs))])
    rp = dict(kind="replay", doc=doc, k=k)
    ctx.case(dict(fn="hierarchical_clustering/single", n=n, D=doc["D"], t=t), nontrivial=len(doc["part"]) not in (1, n))
    # option dictionaries that live across calls (a caller keeps one options dict and loops over data sets): every second
    # behaviour passes the SAME dict objects as earlier calls did; they must come back unchanged
    shared = k % 2 == 1
    lk = _SHARED_KWS.setdefault(("l", "single"), dict(method="single")) if shared else dict(method="single")
    ck = _SHARED_KWS.setdefault(("c", t), dict(t=t, criterion="distance")) if shared else dict(t=t, criterion="distance")
    try:
        link, flat = prs.hierarchical_clustering(list(range(1, n + 1)), metric=Table(), linkage_kws=lk, cluster_kws=ck)
    except Exception as e:      # noqa: BLE001
        ctx.violation("hierarchical_clustering/raised", f"hierarchical_clustering(D={doc['D']}, t={t}) raised {type(e).__name__}: {e}"[:400], rp)
        _SHARED_KWS.clear()
        return
    if lk != dict(method="single") or ck != dict(t=t, criterion="distance"):
        ctx.violation("hierarchical_clustering/options_argument_mutated",
                      f"hierarchical_clustering(D={doc['D']}, t={t}) changed the caller's option dictionaries to linkage_kws={lk} cluster_kws={ck}", rp)
        _SHARED_KWS.clear()
    got = partition_of([(i + 1, int(c)) for i, c in enumerate(flat)])
    want = frozenset(frozenset(p) for p in doc["part"])
    if got != want or len(flat) != n:
        ctx.violation("hierarchical_clustering/single_linkage_not_components",
                      f"hierarchical_clustering(single, D={doc['D']}, t={t}) -> {sorted(map(sorted, got))} want {sorted(map(sorted, want))}", rp)


_SHARED_KWS = {}


def lev(a, b):
    return nc._lev(a, b)


def make_sessions(ctx, nses):
    import pandas as pd
    import pyrepseq as prs
    import scipy.cluster.hierarchy as hc
    out, scipy_bad = [], []
    amap = {c: i for i, c in enumerate(nc.AA)}
    for sid in range(1, nses + 1):
        typ = sid % 4
        k = ctx.rng.choice([1, 2, 3])
        seqs = nc.repertoire(ctx.rng, ctx.rng.randint(3, 22), maxmut=2, maxlen=11, families=ctx.rng.randint(1, 4), short=0)
        if sid % 5 == 0:
            seqs = ["".join(ctx.rng.choice(nc.AA) for _ in range(9)) for _ in range(ctx.rng.randint(2, 6))]      # all isolated
        n = len(seqs)
        if typ in (0, 1):
            # neighbour list produced by the real search -> graph_clustering
            method = ("cc", "cc", "fastgreedy", "multilevel", "leiden")[sid % 5] if typ == 0 else "cc"
            if sid % 3 == 0:
                trip = prs.kdtree(seqs, max_edits=k, max_returns=ctx.rng.choice([1, 2]))      # possibly one orientation only
            else:
                trip = prs.nearest_neighbor(seqs, max_edits=k)
            edges = sorted({(min(i, j) + 1, max(i, j) + 1) for i, j, _ in trip})
            ev = dict(op="Graph", method=method, raised=False, clusters=[], labels_ok=True)
            try:
                kw = dict(objective_function="modularity") if method == "leiden" else {}
                ev["clusters"], ev["labels_ok"] = run_graph(seqs, trip, method, container=NODE_CONTAINERS[sid % len(NODE_CONTAINERS)], **kw)
            except Exception as e:      # noqa: BLE001
                ev.update(raised=True, exc=f"{type(e).__name__}: {e}"[:200])
            out.append(dict(sid=sid, kind="cc", n=n, edges=[list(e) for e in edges], seqs=[], events=[ev], desc=dict(seqs=seqs, k=k, method=method, noedges=not edges)))
        else:
            # hierarchical clustering of strings / TCR tables with arbitrary index
            table = typ == 3
            method = ("single", "average", "complete", "single")[sid % 4]
            t = ctx.rng.choice([1, 2, 3, 4])
            if table:
                seqs2 = nc.repertoire(ctx.rng, n, maxmut=1, maxlen=9, families=2, short=0)
                # twins: the same letters cut at another place (rows whose cells concatenate to the same text are different TCRs)
                for tw in range(min(2, n // 3)):
                    if len(seqs[tw]) >= 2:
                        seqs[-1 - tw], seqs2[-1 - tw] = seqs[tw][:-1], seqs[tw][-1] + seqs2[tw]
                rows = [[a, b] for a, b in zip(seqs, seqs2)]
                cols = dict(TRAV=["TRAV1-1*01"] * n, CDR3A=seqs, TRBV=["TRBV2*01"] * n, CDR3B=seqs2)
                form = (sid // 4) % 6
                order = [["TRAV", "CDR3A", "TRBV", "CDR3B"], ["CDR3A", "CDR3B"], ["TRAV", "TRBV", "CDR3A", "CDR3B"], ["CDR3B", "CDR3A", "TRBV"]][form % 4]
                data = pd.DataFrame({c_: cols[c_] for c_ in order}, index=[f"c{i}" for i in range(n)][::-1])
                if form == 4:
                    data = (list(seqs), list(seqs2))                     # the legacy (alpha chains, beta chains) pair
                elif form == 5:
                    data = (pd.Series(seqs, index=[f"c{i}" for i in range(n)]), pd.Series(seqs2, index=[f"c{i}" for i in range(n)]))
            else:
                rows = [[a] for a in seqs]
                data = [seqs, np.array(seqs, dtype=object), pd.Series(seqs, index=range(5, 5 + n), dtype=object)][sid % 3]
            vec = [sum(lev(x, y) for x, y in zip(rows[i], rows[j])) for i in range(n) for j in range(i + 1, n)]
            ev = dict(op="Hier", t=t, single=(method == "single"), raised=False, flat=[], vec=vec)
            try:
                lk = {} if (method == "single" and sid % 3 == 0) else dict(method=method)      # {} = SciPy's default (single linkage)
                link, flat = prs.hierarchical_clustering(data, linkage_kws=lk, cluster_kws=dict(t=t, criterion="distance"))
                ev["flat"] = [int(c) for c in flat]
                # carve-out: exactly SciPy's linkage / clusters of the (spec-checked) distances
                want_link = hc.linkage(np.array(vec, dtype=float), **lk)
                want_flat = hc.fcluster(want_link, t=t, criterion="distance")
                if not (np.allclose(link, want_link) and list(want_flat) == list(flat)):
                    scipy_bad.append((sid, method, t, rows))
            except Exception as e:      # noqa: BLE001
                ev.update(raised=True, exc=f"{type(e).__name__}: {e}"[:200])
            out.append(dict(sid=sid, kind="hier", n=n, edges=[], seqs=[[nc.enc(c, amap) for c in r] for r in rows], events=[ev],
                            desc=dict(rows=rows[:6], method=method, t=t, table=table)))
    return out, scipy_bad


def big_sessions(ctx, first_sid, count):
    """inputs far beyond any size threshold (n > 1024): many copies of a few distinct rows, so that the specification's
    distances of the distinct rows decide the whole result"""
    import pandas as pd
    import pyrepseq as prs
    import scipy.cluster.hierarchy as hc
    out, scipy_bad = [], []
    amap = {c: i for i, c in enumerate(nc.AA)}
    for r in range(count):
        sid = first_sid + r
        table = r % 2 == 1
        method = ("single", "single", "average", "complete")[r % 4]
        t = ctx.rng.choice([1, 2, 3])
        m = ctx.rng.randint(5, 8)
        useqs = []
        while len(useqs) < m:
            for s_ in nc.repertoire(ctx.rng, m, maxmut=2, maxlen=9, families=3, short=0):
                if s_ not in useqs and len(useqs) < m:
                    useqs.append(s_)
        useqs2 = nc.repertoire(ctx.rng, m, maxmut=1, maxlen=8, families=2, short=0)
        urows = [[a, b] for a, b in zip(useqs, useqs2)] if table else [[a] for a in useqs]
        from .. import lifted as lf
        big = lf.boundary_size(r + 2 + ctx.seed)
        if r == count - 1 and not ctx.quick:
            big = 2049
        idx = list(range(m)) + [ctx.rng.randrange(m) for _ in range(big - m)]
        ctx.rng.shuffle(idx)
        rows = [urows[i] for i in idx]
        D = [[sum(lev(x, y) for x, y in zip(urows[i], urows[j])) for j in range(m)] for i in range(m)]
        uvec = [D[i][j] for i in range(m) for j in range(i + 1, m)]
        if table:
            data = pd.DataFrame(dict(TRAV=["TRAV1-1*01"] * big, CDR3A=[x[0] for x in rows], TRBV=["TRBV2*01"] * big, CDR3B=[x[1] for x in rows]),
                                index=[f"c{i}" for i in range(big)][::-1])
        else:
            data = [[x[0] for x in rows], np.array([x[0] for x in rows], dtype=object)][r % 4 // 2]
        # thorough tier only (optimal leaf ordering of 2049 copies costs minutes): one large input with the function's own default
        # options (average linkage, optimal ordering, t = 6)
        dflt = (r == count - 1) and not ctx.quick
        if dflt:
            method, t = "average", 6
        ev = dict(op="HierBig", t=t, single=(method == "single"), raised=False, flat=[], idx=[i + 1 for i in idx], uvec=uvec)
        try:
            if dflt:
                link, flat = prs.hierarchical_clustering(data)
            else:
                link, flat = prs.hierarchical_clustering(data, linkage_kws=dict(method=method), cluster_kws=dict(t=t, criterion="distance"))
            ev["flat"] = [int(c) for c in flat]
            ia = np.array(idx)
            iu, ju = np.triu_indices(big, k=1)
            vec = np.array(D, dtype=float)[ia[iu], ia[ju]]             # the spec-checked distances lifted to the whole collection
            want_link = hc.linkage(vec, method=method, optimal_ordering=dflt)
            want_flat = hc.fcluster(want_link, t=t, criterion="distance")
            if not (np.shape(link) == np.shape(want_link) and np.allclose(link, want_link) and list(want_flat) == list(flat)):
                scipy_bad.append((sid, method, t, [f"{big} rows: copies of"] + urows))
        except Exception as e:      # noqa: BLE001
            ev.update(raised=True, exc=f"{type(e).__name__}: {e}"[:200])
        out.append(dict(sid=sid, kind="hier", n=big, edges=[], seqs=[[nc.enc(c, amap) for c in r_] for r_ in urows], events=[ev],
                        desc=dict(rows=urows, copies=big, method=method, t=t, table=table)))
    return out, scipy_bad


def run(ctx):
    ctx.rule = ("Clustering.tla: connected components by label propagation (Propagate, DropSingles) and single-linkage agglomeration with "
                "nondeterministic tie-breaking (Merge, Stop) are model-checked for every graph on <= 5 nodes and every small distance matrix "
                "(LabelsAreComponents, ReportedNonSingletons, SingleLinkageIsComponents, PartitionOK, MergeMonotone). Every terminal behaviour is "
                "executed on graph_clustering('cc') (triplet lists / arrays, duplicated labels) and hierarchical_clustering(single) through a "
                "table metric; neighbour lists from the real search (incl. all-isolated inputs), community methods (refinement) and "
                "hierarchical clustering of strings / TCR tables are validated by TraceClustering.tla, other linkage methods against SciPy on "
                "the spec-checked vector. Non-trivial = some but not all nodes clustered.")
    ctx.assumptions = ["community detection itself (igraph) and non-single linkage (SciPy) are trusted; only refinement / equality with SciPy on the spec's distances is checked"]
    q = ctx.quick
    res = run_cfg(ctx, "cc", cfg_text(["cc"], maxnodes=4 if q else 5))
    k = 0
    for doc in res.printed:
        if doc.get("kind") == "cc":
            k += 1
            replay_cc(ctx, doc, k)
            ctx.traces += 1
    res = run_cfg(ctx, "sl", cfg_text(["sl"], maxnodes=4, maxd=2 if q else 3, thresholds=(0, 1, 2)))
    for doc in res.printed:
        if doc.get("kind") == "sl":
            k += 1
            if q and k % 3:
                continue
            replay_sl(ctx, doc, mix(k))
            ctx.traces += 1
    if not q:
        run_cfg(ctx, "sl5", cfg_text(["sl"], maxnodes=5, maxd=1, thresholds=(0, 1), emit=False))
    ctx.exhaustive = True
    sessions, scipy_bad = make_sessions(ctx, 40 if q else 400)
    bs, bb = big_sessions(ctx, 5001, 4 if q else 24)
    sessions += bs
    scipy_bad += bb
    for sid, method, t, rows in scipy_bad:
        ctx.violation(f"hierarchical_clustering/{method}/differs_from_scipy", f"hierarchical_clustering({rows[:5]}.., method={method}, t={t}) differs from SciPy on the metric's distances",
                      dict(kind="scipy", rows=rows, method=method, t=t))
    verd = tcm.validate(ctx, "TraceClustering", [{k2: v for k2, v in s.items() if k2 != "desc"} for s in sessions], constants=TRACE_CONSTS,
                        invariants=("LabelsAreComponents", "ReportedNonSingletons"))
    for s in sessions:
        ctx.traces += 1
        ev = s["events"][0]
        ctx.case(dict(kind="session:" + ev["op"], n=s["n"], desc={k2: v for k2, v in s["desc"].items() if k2 != "seqs"}), nontrivial=True)
        for l, op, clause in tcm.failures(verd[s["sid"]]):
            if clause == "harness_vector_differs_from_spec":
                raise MachineryFailure("the harness's distance vector differs from the specification's (harness bug)")
            extra = "/no-edges" if (clause == "raised" and s["desc"].get("noedges")) else ""
            fn = "graph_clustering/" + ev.get("method", "") if op == "Graph" else "hierarchical_clustering"
            ctx.violation(f"{fn}/{clause}{extra}", f"{fn} {s['desc']}: {clause} {ev.get('exc', '')}"[:500], dict(kind="session", session=s))
    # corrupted traces
    bad = []
    for s in sessions:
        ev = s["events"][0]
        if ev["op"] == "Graph" and ev["method"] == "cc" and len(ev["clusters"]) >= 2 and not any(w == "singleton_reported_or_member_missing" for _, w in bad):
            c = copy.deepcopy({k2: v for k2, v in s.items() if k2 != "desc"}); c["sid"] = 990001; c["events"][0]["clusters"] = c["events"][0]["clusters"][1:]
            bad.append((c, "singleton_reported_or_member_missing"))
        if ev["op"] == "Hier" and ev["single"] and len(set(ev["flat"])) > 1 and not any(w == "single_linkage_not_components" for _, w in bad):
            c = copy.deepcopy({k2: v for k2, v in s.items() if k2 != "desc"}); c["sid"] = 990002; c["events"][0]["flat"] = [1] * len(ev["flat"])
            bad.append((c, "single_linkage_not_components"))
    if bad:
        v2 = tcm.validate(ctx, "TraceClustering", [b for b, _ in bad], constants=TRACE_CONSTS, count=False)
        for c, want in bad:
            ok = any(cl == want for _, _, cl in tcm.failures(v2[c["sid"]]))
            ctx.negative.append(dict(kind="corrupted_trace", corruption=want, rejected=ok))
            if not ok:
                raise MachineryFailure(f"corrupted clustering trace ({want}) accepted")
    run_cfg(ctx, "NEG_gt2", cfg_text(["cc"], maxnodes=3, mutations=["gt2"], invs=("ReportedNonSingletons",), emit=False), expect_violation=["ReportedNonSingletons"], workers=4)


def replay(doc):
    from ..core import Ctx
    ctx = Ctx("C15", "quick", 0)
    ctx._known = []
    r = doc["replay"]
    if r.get("kind") == "replay":
        (replay_cc if r["doc"]["kind"] == "cc" else replay_sl)(ctx, r["doc"], r.get("k", 1))
        return 1 if ctx.violations else 0
    print("re-run ./check C15")
    return 1
