"""C03 - two-collection search returns exactly the query/reference pairs within range; database objects are reusable."""
from __future__ import annotations

import copy

from .. import nncommon as nc
from .. import nnprops as npx
from ..nnprops import ModelRun

INVS = ("TypeOK", "Exact", "NoRepeat", "DenseExact")


def classify(inp, clause):
    return f"{inp['engine']}/{inp['mode']}/{'two' if inp['two'] else 'self'}/{clause}"


def models(quick):
    if quick:
        return [ModelRun("C03_two", letters=[0, 1], maxlen=2, maxn=2, maxn2=2, ks=[1, 2], engines=["symdel"],
                         invariants=INVS),
                ModelRun("C03_two_ham", letters=[0, 1], maxlen=2, maxn=2, maxn2=2, ks=[1, 2], engines=["symdel"], modes=["hamming"],
                         invariants=INVS),
                ModelRun("C03_k3", letters=[0, 1], maxlen=3, maxn=1, maxn2=1, ks=[3], engines=["symdel"], invariants=INVS),
                ModelRun("C03_two_hash", letters=[0, 1], maxlen=2, maxn=2, maxn2=2, ks=[1], engines=["hash"],
                         invariants=INVS + ("BallExact",)),
                ModelRun("C03_two_hash2", letters=[0, 1], maxlen=2, maxn=1, maxn2=2, ks=[2], engines=["hash"],
                         invariants=INVS + ("BallExact",)),
                ModelRun("C03_hist", letters=[0, 1], maxlen=1, maxn=2, maxn2=2, ks=[1], engines=["symdel", "hash"], modes=["lev", "hamming"],
                         maxlookups=2, invariants=INVS, properties=("IndexStableA",))]
    return [ModelRun("C03_two", letters=[0, 1], maxlen=3, maxn=2, maxn2=2, ks=[1, 2], engines=["symdel", "hash"],
                     invariants=INVS),
            ModelRun("C03_two_ham", letters=[0, 1], maxlen=3, maxn=2, maxn2=2, ks=[1, 2], engines=["symdel", "hash"], modes=["hamming"],
                     invariants=INVS),
            # (hash_based enumerates the 20-letter edit ball on the real code: radius 3 costs seconds per query, so k <= 2 there)
            ModelRun("C03_two3", letters=[0, 1, 2], maxlen=2, maxn=2, maxn2=2, ks=[1, 2, 3], engines=["symdel"], invariants=INVS),
            ModelRun("C03_two3h", letters=[0, 1, 2], maxlen=2, maxn=2, maxn2=1, ks=[1, 2], engines=["hash"], invariants=INVS + ("BallExact",)),
            ModelRun("C03_hist", letters=[0, 1], maxlen=2, maxn=2, maxn2=1, ks=[1, 2], engines=["symdel", "hash"], modes=["lev", "hamming"],
                     maxlookups=2, invariants=INVS, properties=("IndexStableA",))]


def lookup_kw(inp):
    """keyword arguments of one lookup: the distance mode (and, in custom mode, the distance function and its radius)
    belongs to the lookup, not to the database object"""
    if inp["mode"] == "hamming":
        return dict(custom_distance="hamming")
    if inp["mode"] == "custom":
        return dict(custom_distance=nc.cd_function(inp["cd"]), max_custom_distance=float("inf") if inp["maxc"] >= nc.INF else inp["maxc"] / 4.0)
    return {}


def replay_histories(ctx, res, letters, max_groups=None, classify_fn=None):
    """spec -> code for database histories: the successors of a built database in the state graph are lookups with
    other query lists; all emitted behaviours sharing (engine, k, reference) are replayed against ONE real database
    object, each query list twice, and the object's index is compared before/after every lookup."""
    import pyrepseq.nn as nn
    groups = {}
    for doc in res.printed:
        if isinstance(doc, dict) and "inp" in doc and doc["inp"]["two"]:
            i = doc["inp"]
            # SymdelDB fixes max_edits at build time; LookupDB takes it per lookup: one object serves every radius
            # ... and the distance mode is an argument of every lookup on both objects: one object serves Levenshtein and Hamming lookups
            mgrp = i["mode"] if i["mode"] == "custom" else "lev+hamming"
            groups.setdefault((i["engine"], i["k"] if i["engine"] == "symdel" else 0, mgrp, str(i["seqs"])), {})[
                str(i["seqs2"]) + "/" + str(i["k"]) + "/" + i["mode"] + "/" + str(i.get("cd")) + "/" + str(i.get("maxc"))] = doc
    items = list(groups.items())
    if max_groups is not None and len(items) > max_groups:
        ctx.note(f"{res.cfg}: {len(items)} database histories, seeded sample of {max_groups} replayed")
        items = ctx.rng.sample(items, max_groups)
    for (eng, k, _mgrp, _), docs in items:
        # the same query list under the other mode / radius is adjacent in the order: caches keyed by the query alone show up
        # (custom mode: the same query under another radius pair / distance function; the reversed second half of the order
        #  asks with the radii going DOWN again)
        docs = sorted(docs.values(), key=lambda d: (str(d["inp"]["seqs2"]), d["inp"]["k"], d["inp"]["mode"], str(d["inp"].get("cd")), d["inp"].get("maxc", 0)))
        if len(docs) > 48:
            docs = docs[:24] + docs[-24:]
        ref = [nc.dec(x, letters) for x in docs[0]["inp"]["seqs"]]
        db = nn.SymdelDB(ref, k) if eng == "symdel" else nn.LookupDB(ref)
        ks_seen = set()
        order = docs + docs[::-1]
        hist = []
        for doc in order:
            qs = [nc.dec(x, letters) for x in doc["inp"]["seqs2"]]
            before = nc._snapshot(db)
            mode = doc["inp"]["mode"]
            hist.append([qs, doc["inp"]["k"], mode] + ([doc["inp"]["cd"], doc["inp"]["maxc"]] if mode == "custom" else []))
            try:
                kq = doc["inp"]["k"]
                ks_seen.add(kq)
                mkw = lookup_kw(doc["inp"])
                ret = db.lookup(qs, **mkw) if eng == "symdel" else db.lookup(qs, max_edits=kq, **mkw)
                got = sorted(map(tuple, nc.norm_triplets(ret, mode)))
            except Exception as e:   # noqa: BLE001
                ctx.violation((classify_fn or classify)(doc["inp"], "raised"), f"{eng} db lookup raised {type(e).__name__}: {e} history={hist}",
                              dict(kind="replay", doc=doc, letters=letters, api="LookupDB" if eng == "hash" else None))
                continue
            want = sorted(map(tuple, doc["trip"]))
            ctx.case(dict(kind="db_history", engine=eng, ref=ref, k=kq, history=list(hist)), nontrivial=len(hist) > 1 and len(want) > 0)
            if nc._snapshot(db) != before:
                ctx.violation((classify_fn or classify)(doc["inp"], "db_mutated"), f"{eng} database changed by lookup({qs}); ref={ref}",
                              dict(kind="db_history", engine=eng, ref=ref, k=k, history=list(hist), letters=letters))
            if got != want:
                gp, wp = {(a, b) for a, b, _ in got}, {(a, b) for a, b, _ in want}
                clause = "missing_pair" if wp - gp else "spurious_pair" if gp - wp else "repeated" if len(got) != len(set(got)) else "wrong_distance"
                if clause == "missing_pair" and all(a == b for a, b in wp - gp):
                    clause = "missing_pair_equal_positions"
                ctx.violation((classify_fn or classify)(doc["inp"], clause),
                              f"{eng} db(ref={ref}, k={k}) after history {hist}: got {got} want {want}"[:500],
                              dict(kind="db_history", engine=eng, ref=ref, k=k, history=list(hist), letters=letters, want=want))
        ctx.traces += 1


def run(ctx):
    ctx.rule = ("spec->code: every terminal behaviour of the TLC model with a second collection (symdel/SymdelDB.lookup and "
                "LookupDB.lookup) is executed on the real code; behaviours sharing a reference are replayed as one history "
                "against a single database object (index snapshot compared around every lookup). code->spec: recorded one-shot "
                "and database sessions (several lookups per build, repeated queries) validated by TraceNN.tla. "
                "Non-trivial = at least one hit; distinct by input/history.")
    ctx.assumptions = ["Strings.tla fold-based Levenshtein is the oracle", "hash engine traces use a 6-letter sub-alphabet so that the edit ball is enumerable by TLC"]
    for mr in models(ctx.quick):
        res = npx.run_model(ctx, mr, coverage=not ctx.quick)
        alph = ["ACD"] if len(mr.kw["letters"]) == 3 else ["AC", "WY"]
        if "hash" in mr.kw["engines"] and max(mr.kw["ks"]) >= 2:
            alph = alph[:1]          # the real edit ball over 20 letters is large for k >= 2
        # letters outside the 20 amino acids (any alphabet is legal for the deletion-index search; skipped for the hash engine)
        aa_only = list(alph)
        alph = alph + (["X*b"] if len(mr.kw["letters"]) == 3 else ["X*"])
        if mr.kw.get("maxlookups"):
            replay_histories(ctx, res, aa_only[0], max_groups=None if ctx.quick else 1500)
        else:
            npx.replay_emitted(ctx, res, alph, classify=classify_with_equal_positions, budget=None if ctx.quick else 40000)
            replay_histories(ctx, res, aa_only[-1], max_groups=None if ctx.quick else 1500)
    ctx.exhaustive = True
    # ---- recorded sessions
    sessions, sid = [], 0
    sub = "ACDGWY"
    codes = sorted(nc.AA.index(c) for c in sub)
    nses = 10 if ctx.quick else 80
    for r in range(nses):
        sid += 1
        eng = ("symdel", "symdel", "hash")[r % 3]
        if eng == "symdel":
            k = ctx.rng.choice([1, 2, 2, 3])
            ref = nc.repertoire(ctx.rng, ctx.rng.randint(20, 40 if ctx.quick else 60), maxmut=k + 1, maxlen=14 if k < 3 else 11)
            letters_for_trace = None
        else:
            k = ctx.rng.choice([1, 1, 2])
            ref = nc.repertoire(ctx.rng, ctx.rng.randint(10, 24), letters=sub, minlen=3, maxlen=9 if k == 1 else 5, maxmut=k + 1)
        nq = ctx.rng.randint(4, 14)
        qs = []
        for _ in range(3):
            q = [nc.mutate(ctx.rng, ctx.rng.choice(ref), ctx.rng.randint(0, k + 1), letters=sub if eng == "hash" else nc.AA) for _ in range(nq)]
            q[: len(q) // 3] = ref[: len(q) // 3]            # same sequence at the same position: q = r hits
            qs.append(q)
        inp = nc.make_inp(eng, "lev", k, ref, seqs2=qs[0])
        if r % 2 == 0:
            look = [nc.make_inp(eng, "lev", k, ref, seqs2=q)["seqs2"] for q in (qs[1], qs[0], qs[2])]
            # the distance mode is an argument of every lookup: the first query list comes back under the other mode
            mseq = (("lev", "lev", "lev", "lev"), ("hamming", "hamming", "lev", "hamming"), ("lev", "hamming", "lev", "hamming"))[(r // 2) % 3]
            if eng == "hash":       # the radius of LookupDB is per lookup: vary it, and repeat a query list under another radius
                look = [(look[0], 1, mseq[0]), (look[1], 2 if k == 1 else 1, mseq[1]), (look[1], k, mseq[2]), (look[2], 1, mseq[3])]
            else:
                look = [(q, k, m) for q, m in zip(look, mseq)]
            s = nc.build_db_session(sid, inp, look)
        else:
            s = nc.build_session(sid, inp, api=None if eng == "hash" else ("nearest_neighbor", "symdel")[sid % 2])
        sessions.append(s)
    # expanded clones: a query with dozens of candidate references (bulk / batched code paths)
    for r in range(2 if ctx.quick else 12):
        sid += 1
        k = 1 + r % 2
        ref, root = nc.expanded_clone(ctx.rng, copies=ctx.rng.randint(66, 90))
        q = [root, nc.mutate(ctx.rng, root, 1), nc.mutate(ctx.rng, root, 2), ref[0], "CASSF"]
        sessions.append(nc.build_session(sid, nc.make_inp("symdel", "lev", k, ref, seqs2=q), api=("nearest_neighbor", "symdel")[sid % 2], with_internal=False))
        sid += 1
        sessions.append(nc.build_db_session(sid, nc.make_inp("symdel", "lev", k, ref, seqs2=q), [nc.make_inp("symdel", "lev", k, ref, seqs2=q[::-1])["seqs2"]], with_internal=False))
    npx.count_sessions(ctx, sessions)
    verdicts = nc.validate_sessions(ctx, sessions, letters=codes)
    npx.judge_sessions(ctx, sessions, verdicts, classify=classify)
    npx.corrupted_controls(ctx, sessions[:6], trace_letters=codes)
    # a database whose lookup mutates it must be rejected: corrupt the logged flag
    c = copy.deepcopy(next(s for s in sessions if s["kind"] == "db"))
    c["sid"] = 910000
    next(e for e in c["events"] if e["op"] == "Join")["db_changed"] = True
    v = nc.validate_sessions(ctx, [c], count=False, letters=codes)
    ok = any(cl == "db_mutated" for _, _, cl in nc.failed_api_clauses(v[c["sid"]])[0])
    ctx.negative.append(dict(kind="corrupted_trace", corruption="db_changed", rejected=ok))
    if not ok:
        raise npx.MachineryFailure("db_changed corruption accepted")
    # spec mutant: the as-found skip of equal positions violates Exact
    npx.run_model(ctx, ModelRun("NEG_C03_skip", letters=[0, 1], maxlen=2, maxn=2, maxn2=2, ks=[1], engines=["hash"],
                                asfound=["hb_skip_equal_positions"], invariants=("Exact",)), workers=4, expect_violation=True)


def classify_with_equal_positions(inp, clause):
    return classify(inp, clause)


def replay(doc):
    r = doc["replay"]
    if r.get("kind") == "db_history":
        import pyrepseq.nn as nn
        db = nn.SymdelDB(r["ref"], r["k"]) if r["engine"] == "symdel" else nn.LookupDB(r["ref"])
        got = None
        for qs, kq, *m in r["history"]:
            mode = m[0] if m else "lev"
            mkw = lookup_kw(dict(mode=mode, cd=m[1] if len(m) > 1 else None, maxc=m[2] if len(m) > 2 else nc.INF))
            ret = db.lookup(qs, **mkw) if r["engine"] == "symdel" else db.lookup(qs, max_edits=kq, **mkw)
            got = sorted(map(tuple, nc.norm_triplets(ret, mode)))
        want = sorted(map(tuple, r.get("want", [])))
        print("got", got, "want", want)
        return 1 if got != want else 0
    return npx.replay_doc("C03", doc)
