"""C14 - distance-filtered search keeps exactly the pairs inside both radii; nearest_neighbor_tcrdist; V tables."""
from __future__ import annotations

import os
import sys

from .. import nncommon as nc
from .. import nnprops as npx
from ..nnprops import ModelRun

INVS = ("TypeOK", "Exact", "NoRepeat", "NoSelf", "Symmetric", "DenseExact")
INVS2 = ("TypeOK", "Exact", "NoRepeat", "DenseExact")
FAMS = ["lev2", "levq", "lev5", "hamlen", "len", "disc"]
MAXCS = [0, 2, 4, 8, nc.INF]


def classify(inp, clause):
    return f"{inp['engine']}/custom/{'two' if inp['two'] else 'self'}/{clause}"


def models(quick):
    eng = ["symdel", "hash", "kd"]
    if quick:
        return [ModelRun("C14_l2", letters=[0, 1], maxlen=2, maxn=2, ks=[1, 2], engines=eng, modes=["custom"], cdfams=FAMS, maxcs=MAXCS, invariants=INVS),
                ModelRun("C14_l3", letters=[0, 1], maxlen=3, maxn=2, ks=[1, 2], engines=eng, modes=["custom"], cdfams=["hamlen", "lev5"], maxcs=[2, nc.INF], invariants=INVS),
                ModelRun("C14_two", letters=[0, 1], maxlen=2, maxn=2, maxn2=1, ks=[1, 2], engines=["symdel", "hash"], modes=["custom"], cdfams=["hamlen", "lev2", "len"], maxcs=[0, 4, nc.INF], invariants=INVS2)]
    return [ModelRun("C14_l3", letters=[0, 1], maxlen=3, maxn=2, ks=[1, 2], engines=eng, modes=["custom"], cdfams=FAMS, maxcs=MAXCS, invariants=INVS),
            ModelRun("C14_n3", letters=[0, 1], maxlen=2, maxn=3, ks=[1, 2], engines=eng, modes=["custom"], cdfams=FAMS, maxcs=MAXCS, invariants=INVS),
            ModelRun("C14_two", letters=[0, 1], maxlen=2, maxn=2, maxn2=2, ks=[1, 2], engines=["symdel", "hash"], modes=["custom"], cdfams=FAMS, maxcs=[0, 4, nc.INF], invariants=INVS2)]


def run(ctx):
    ctx.rule = ("spec->code: every terminal behaviour of the TLC model in custom-distance mode (six symmetric distance families, "
                "integer and fractional, scaled, length-sensitive; finite and infinite max_custom_distance; three engines; one- and "
                "two-collection forms) is executed on the real functions; code->spec: random repertoires with the same families and "
                "nearest_neighbor_tcrdist sessions (vendored pwseqdist stand-in) validated by TLC. Non-trivial = at least one pair kept.")
    ctx.assumptions = ["custom distances are the families of NNSearch.tla!Cd, implemented identically in pv/nncommon.py with exact binary fractions",
                       "TCRdist part runs against harness/standins/pwseqdist (the optional dependency is absent)"]
    for mr in models(ctx.quick):
        res = npx.run_model(ctx, mr, coverage=not ctx.quick)
        thin = (lambda inp: 3 if (inp["engine"] == "hash" and inp["k"] >= 2) else 1)
        npx.replay_emitted(ctx, res, [nc.AA], classify=classify, thin=thin, budget=None if ctx.quick else 60000)
        if mr.kw.get("maxn2"):
            # database objects in custom mode: all behaviours sharing a reference are lookups on ONE SymdelDB / LookupDB object
            # (the distance function and both radii are arguments of each lookup; radii go up and come down again)
            from .c03 import replay_histories
            replay_histories(ctx, res, nc.AA, max_groups=None if ctx.quick else 1500, classify_fn=classify)
    ctx.exhaustive = True
    sessions, sid = [], 0
    sub = "ACDHIY"
    codes = sorted(nc.AA.index(c) for c in sub)
    nses = 12 if ctx.quick else 120
    for r in range(nses):
        sid += 1
        eng = ("symdel", "kd", "hash", "symdel2")[r % 4]
        k = ctx.rng.choice([1, 2, 2, 3])
        fam = ctx.rng.choice(FAMS)
        maxc = ctx.rng.choice([0, 2, 4, 8, 12, 40, nc.INF])
        if eng == "hash":
            k = min(k, 2)
            seqs = nc.repertoire(ctx.rng, ctx.rng.randint(10, 20), letters=sub, minlen=3, maxlen=8 if k == 1 else 5, maxmut=k + 1)
        else:
            seqs = nc.repertoire(ctx.rng, ctx.rng.randint(14, 36), maxmut=k + 1, maxlen=14)
        if eng == "symdel2":
            q = [ctx.rng.choice(seqs) for _ in range(5)] + [nc.mutate(ctx.rng, ctx.rng.choice(seqs), ctx.rng.randint(1, k)) for _ in range(5)]
            inp = nc.make_inp("symdel", "custom", k, seqs, seqs2=q, cd=fam, maxc=maxc)
        else:
            inp = nc.make_inp(eng, "custom", k, seqs, cd=fam, maxc=maxc, comp=ctx.rng.choice([1, 2]) if eng == "kd" else 1)
        sessions.append(nc.build_session(sid, inp, api=("nearest_neighbor", "symdel")[sid % 2] if inp["engine"] == "symdel" else None,
                                         with_internal=False))
    npx.count_sessions(ctx, sessions)
    verdicts = nc.validate_sessions(ctx, sessions, letters=codes)
    npx.judge_sessions(ctx, sessions, verdicts, classify=classify)
    npx.corrupted_controls(ctx, sessions[:8], trace_letters=codes)
    # as-found model of symdel (single threshold) must violate Exact
    npx.run_model(ctx, ModelRun("NEG_C14_single_threshold", letters=[0, 1], maxlen=2, maxn=2, ks=[1], engines=["symdel"], modes=["custom"],
                                cdfams=["hamlen", "lev5"], maxcs=[4, nc.INF], asfound=["sd_single_threshold"], invariants=("Exact",)),
                  workers=4, expect_violation=True)


    tcr_part(ctx)


# ---------------------------------------------------------------------------------------------- TCRdist part

STANDINS = os.path.join(os.path.dirname(os.path.dirname(os.path.dirname(os.path.abspath(__file__)))), "standins")


def _tables():
    import pandas as pd
    out = {}
    for c in ("alpha", "beta"):
        out[c] = pd.read_csv(os.path.join(os.environ.get("PV_REPO", "/repo"), "pyrepseq", "data", f"vdists_{c}.csv"), index_col=0)
    return out


def tcr_case(rng, tables):
    import pandas as pd
    n = rng.randint(2, 10)
    fam_a = [nc.repertoire(rng, 1, minlen=7, maxlen=13)[0] for _ in range(2)]
    fam_b = [nc.repertoire(rng, 1, minlen=7, maxlen=13)[0] for _ in range(2)]
    va = [rng.choice(list(tables["alpha"].index[:12])) for _ in range(n)]
    vb = [rng.choice(list(tables["beta"].index[:12])) for _ in range(n)]
    if rng.random() < 0.35:
        # the most distant gene pairs of both tables (the largest V-gene terms the sum can contain), alternating over the rows
        xa, xb = tables["alpha"].stack().idxmax(), tables["beta"].stack().idxmax()
        va = [xa[i % 2] for i in range(n)]
        vb = [xb[i % 2] for i in range(n)]
    ca = ["C" + nc.mutate(rng, rng.choice(fam_a), rng.randint(0, 2)) + "F" for _ in range(n)]
    cb = ["C" + nc.mutate(rng, rng.choice(fam_b), rng.randint(0, 2)) + "F" for _ in range(n)]
    if rng.random() < 0.2:
        cb[rng.randrange(n)] = "CASF"            # shorter than the trimming
    index = rng.choice([None, list(range(10, 10 + n)), [f"t{i}" for i in range(n)], list(range(n))[::-1]])
    df = pd.DataFrame(dict(TRAV=va, CDR3A=ca, TRBV=vb, CDR3B=cb, extra=list(range(n))), index=index)
    chain = rng.choice(["alpha", "beta", "both"])
    k = rng.choice([1, 2, 2, 3])
    eot = rng.random() < 0.7
    maxt = rng.choice([0, 12, 20, 24, 50, 100, 400])
    kwargs = rng.choice([{}, {}, dict(ntrim=2, ctrim=1), dict(dist_weight=1, gap_penalty=4), dict(fixed_gappos=True)])
    return df, chain, k, eot, maxt, kwargs


def tcr_session(sid, case, tables):
    import pyrepseq.nn as nn
    import pwseqdist
    df, chain, k, eot, maxt, kwargs = case
    kw = dict(use_numba=True, fixed_gappos=False, ntrim=3, ctrim=2, dist_weight=3, gap_penalty=12)
    kw.update(kwargs)
    cand_chain = "beta" if chain in ("beta", "both") else "alpha"
    chains = [cand_chain] + (["alpha"] if chain == "both" else [])
    L = {"alpha": "A", "beta": "B"}
    n = len(df)
    cd = list(df[f"CDR3{L[cand_chain]}"])
    T = [s[kw["ntrim"]:len(s) - kw["ctrim"]] if (eot and len(s) > kw["ntrim"] + kw["ctrim"]) else ("" if eot else s) for s in cd]
    vd, c3 = [], []
    for c in chains:
        v = list(df[f"TR{L[c]}V"])
        seqs = list(df[f"CDR3{L[c]}"])
        vd.append([[int(tables[c].loc[v[i], v[j]]) for j in range(n)] for i in range(n)])
        c3.append([[int(pwseqdist.metrics.nb_vector_tcrdist(seqs[i], seqs[j], **kw)) for j in range(n)] for i in range(n)])
    inp = dict(T=[nc.enc(t) for t in T], k=k, nchains=len(chains), vd=vd, c3=c3, maxt=maxt)
    before = df.copy(deep=True)
    kwargs_before = dict(kwargs)
    raised, ret = None, []
    try:
        r = nn.nearest_neighbor_tcrdist(df, chain=chain, max_edits=k, edit_on_trimmed=eot, max_tcrdist=maxt, tcrdist_kwargs=kwargs)
        for t in r:
            d = float(t[2])
            ret.append([int(t[0]) + 1, int(t[1]) + 1, int(d) if d == int(d) else -7])
    except Exception as e:    # noqa: BLE001
        raised = e
    ev = dict(op="Call", raised=raised is not None, ret=ret, exc=(type(raised).__name__ + ": " + str(raised)[:200]) if raised is not None else "")
    desc = dict(chain=chain, max_edits=k, edit_on_trimmed=eot, max_tcrdist=maxt, tcrdist_kwargs=kwargs,
                rows=df.reset_index().astype(str).values.tolist(), index=[str(x) for x in df.index])
    untouched = before.equals(df) and list(before.index) == list(df.index) and kwargs == kwargs_before
    return dict(sid=sid, inp=inp, events=[ev], desc=desc, untouched=untouched)


def tcr_part(ctx):
    if STANDINS not in sys.path:
        sys.path.insert(0, STANDINS)
    import importlib
    import pyrepseq.nn as nn
    if not hasattr(nn, "pwseqdist"):
        importlib.reload(nn)
    from .. import tracecommon as tcm
    ctx.mc("TcrNN", "TcrNN.cfg", workers=16)
    tables = _tables()
    sessions = []
    # the bundled tables themselves
    for n_, c in enumerate(("alpha", "beta")):
        t = tables[c]
        sessions.append(dict(sid=800 + n_, inp=dict(T=[[0]], k=1, nchains=1, vd=[[[0]]], c3=[[[0]]], maxt=0),
                             events=[dict(op="Table", m=t.values.astype(int).tolist(), index=list(map(str, t.index)),
                                          columns=list(map(str, t.columns)))], desc=dict(table=c), untouched=True))
    ncase = 40 if ctx.quick else 400
    for r in range(ncase):
        sessions.append(tcr_session(r + 1, tcr_case(ctx.rng, tables), tables))
    consts = "  Letters = {0}\n  MaxLen = 0\n  MaxN = 1\n  Ks = {1}\n  Vals = {0}\n  MaxTs = {0}\n  Chains = {1}"
    verd = tcm.validate(ctx, "TraceTcr", [dict(sid=s["sid"], inp=s["inp"], events=s["events"]) for s in sessions],
                        constants=consts, invariants=("ResultExact", "ResultSymmetric"))
    for s in sessions:
        ctx.traces += 1
        ev = s["events"][0]
        if ev["op"] == "Call":
            ctx.case(dict(kind="tcrdist_session", **{k: v for k, v in s["desc"].items() if k != "rows"}, n=len(s["inp"]["T"]), pairs=len(ev["ret"])),
                     nontrivial=len(ev["ret"]) > 0)
        else:
            ctx.case(dict(kind="vtable", table=s["desc"]["table"], size=len(ev["m"])), nontrivial=True)
        for l, op, clause in tcm.failures(verd[s["sid"]]):
            key = f"tcrdist/{op}/{clause}" + ("/no-candidate-pair" if (clause == "raised" and "IndexError" in ev.get("exc", "")) else "")
            ctx.violation(key, f"nearest_neighbor_tcrdist {s['desc']} -> {clause} {ev.get('exc', '')} ret={ev.get('ret')}"[:900],
                          dict(kind="tcr", desc=s["desc"], inp=s["inp"], event=ev))
        if not s["untouched"]:
            ctx.violation("tcrdist/argument_mutated", f"nearest_neighbor_tcrdist modified its table or tcrdist_kwargs: {s['desc']}"[:600],
                          dict(kind="tcr", desc=s["desc"]))
    # corrupted traces must be rejected
    import copy
    good = [s for s in sessions if s["events"][0]["op"] == "Call" and s["events"][0]["ret"]][:3]
    bad = []
    for n_, s in enumerate(good):
        c = copy.deepcopy(dict(sid=950 + n_, inp=s["inp"], events=s["events"]))
        if n_ % 3 == 0:
            c["events"][0]["ret"][0][2] += 1
            want = "wrong_value"
        elif n_ % 3 == 1:
            c["events"][0]["ret"] = c["events"][0]["ret"][1:]
            want = "missing_pair"
        else:
            c["inp"]["maxt"] = c["events"][0]["ret"][0][2] - 1
            want = "spurious_pair"
        bad.append((c, want))
    if bad:
        v2 = tcm.validate(ctx, "TraceTcr", [b for b, _ in bad], constants=consts, count=False)
        for c, want in bad:
            ok = any(cl == want for _, _, cl in tcm.failures(v2[c["sid"]]))
            ctx.negative.append(dict(kind="corrupted_trace", corruption="tcr:" + want, rejected=ok))
            if not ok:
                raise npx.MachineryFailure(f"corrupted tcrdist trace ({want}) accepted")


def replay(doc):
    r = doc["replay"]
    if r.get("kind") == "tcr":
        print("re-run ./check C14 (tcrdist sessions are regenerated from the seed); recorded case:", r.get("desc"))
        return 1
    return npx.replay_doc("C14", doc)
