"""C14 - distance-filtered search keeps exactly the pairs inside both radii; nearest_neighbor_tcrdist; V tables."""
from __future__ import annotations

import os
import sys

from .. import nncommon as nc
from .. import nnprops as npx
from ..nnprops import ModelRun

INVS = ("TypeOK", "Exact", "NoRepeat", "NoSelf", "Symmetric", "DenseExact")
INVS2 = ("TypeOK", "Exact", "NoRepeat", "DenseExact")
FAMS = ["lev2", "levq", "lev5", "hamlen", "len", "disc"]
MAXCS = [0, 2, 4, 8, nc.INF]


def classify(inp, clause):
    return f"{inp['engine']}/custom/{'two' if inp['two'] else 'self'}/{clause}"


def models(quick):
    eng = ["symdel", "hash", "kd"]
    if quick:
        return [ModelRun("C14_l2", letters=[0, 1], maxlen=2, maxn=2, ks=[1, 2], engines=eng, modes=["custom"], cdfams=FAMS, maxcs=MAXCS, invariants=INVS),
                ModelRun("C14_l3", letters=[0, 1], maxlen=3, maxn=2, ks=[1, 2], engines=eng, modes=["custom"], cdfams=["hamlen", "lev5"], maxcs=[2, nc.INF], invariants=INVS),
                ModelRun("C14_two", letters=[0, 1], maxlen=2, maxn=2, maxn2=1, ks=[1], engines=["symdel", "hash"], modes=["custom"], cdfams=["hamlen", "lev2", "len"], maxcs=[0, 4, nc.INF], invariants=INVS2)]
    return [ModelRun("C14_l3", letters=[0, 1], maxlen=3, maxn=2, ks=[1, 2], engines=eng, modes=["custom"], cdfams=FAMS, maxcs=MAXCS, invariants=INVS),
            ModelRun("C14_n3", letters=[0, 1], maxlen=2, maxn=3, ks=[1, 2], engines=eng, modes=["custom"], cdfams=FAMS, maxcs=MAXCS, invariants=INVS),
            ModelRun("C14_two", letters=[0, 1], maxlen=2, maxn=2, maxn2=2, ks=[1, 2], engines=["symdel", "hash"], modes=["custom"], cdfams=FAMS, maxcs=[0, 4, nc.INF], invariants=INVS2)]


def run(ctx):
    ctx.rule = ("spec->code: every terminal behaviour of the TLC model in custom-distance mode (six symmetric distance families, "
                "integer and fractional, scaled, length-sensitive; finite and infinite max_custom_distance; three engines; one- and "
                "two-collection forms) is executed on the real functions; code->spec: random repertoires with the same families and "
                "nearest_neighbor_tcrdist sessions (vendored pwseqdist stand-in) validated by TLC. Non-trivial = at least one pair kept.")
    ctx.assumptions = ["custom distances are the families of NNSearch.tla!Cd, implemented identically in pv/nncommon.py with exact binary fractions",
                       "TCRdist part runs against harness/standins/pwseqdist (the optional dependency is absent)"]
    for mr in models(ctx.quick):
        res = npx.run_model(ctx, mr, coverage=not ctx.quick)
        thin = (lambda inp: 3 if (inp["engine"] == "hash" and inp["k"] >= 2) else 1)
        npx.replay_emitted(ctx, res, [nc.AA], classify=classify, thin=thin)
    ctx.exhaustive = True
    sessions, sid = [], 0
    sub = "ACDHIY"
    codes = sorted(nc.AA.index(c) for c in sub)
    nses = 12 if ctx.quick else 120
    for r in range(nses):
        sid += 1
        eng = ("symdel", "kd", "hash", "symdel2")[r % 4]
        k = ctx.rng.choice([1, 2, 2, 3])
        fam = ctx.rng.choice(FAMS)
        maxc = ctx.rng.choice([0, 2, 4, 8, 12, 40, nc.INF])
        if eng == "hash":
            k = min(k, 2)
            seqs = nc.repertoire(ctx.rng, ctx.rng.randint(10, 20), letters=sub, minlen=3, maxlen=8 if k == 1 else 5, maxmut=k + 1)
        else:
            seqs = nc.repertoire(ctx.rng, ctx.rng.randint(14, 36), maxmut=k + 1, maxlen=14)
        if eng == "symdel2":
            q = [ctx.rng.choice(seqs) for _ in range(5)] + [nc.mutate(ctx.rng, ctx.rng.choice(seqs), ctx.rng.randint(1, k)) for _ in range(5)]
            inp = nc.make_inp("symdel", "custom", k, seqs, seqs2=q, cd=fam, maxc=maxc)
        else:
            inp = nc.make_inp(eng, "custom", k, seqs, cd=fam, maxc=maxc, comp=ctx.rng.choice([1, 2]) if eng == "kd" else 1)
        sessions.append(nc.build_session(sid, inp, api=("nearest_neighbor", "symdel")[sid % 2] if inp["engine"] == "symdel" else None,
                                         with_internal=False))
    npx.count_sessions(ctx, sessions)
    verdicts = nc.validate_sessions(ctx, sessions, letters=codes)
    npx.judge_sessions(ctx, sessions, verdicts, classify=classify)
    npx.corrupted_controls(ctx, sessions[:8], trace_letters=codes)
    # as-found model of symdel (single threshold) must violate Exact
    npx.run_model(ctx, ModelRun("NEG_C14_single_threshold", letters=[0, 1], maxlen=2, maxn=2, ks=[1], engines=["symdel"], modes=["custom"],
                                cdfams=["hamlen", "lev5"], maxcs=[4, nc.INF], asfound=["sd_single_threshold"], invariants=("Exact",)),
                  workers=4, expect_violation=True)


def replay(doc):
    return npx.replay_doc("C14", doc)
