"""C16 - richness and overlap estimators follow their closed forms for every count vector."""
from __future__ import annotations

import copy
import numpy as np

from .. import estim
from ..core import mix

INVS = ("ChaoNotBelowObserved", "OverlapSymmetric", "VarChaoExpanded")


def check(ctx, desc, fn, want, key, rp):
    try:
        got = fn()
    except Exception as e:      # noqa: BLE001
        ctx.violation(f"{key}/raised:{type(e).__name__}", f"{desc} raised {type(e).__name__}: {e}"[:400], rp)
        return
    if not estim.close(got, want):
        ctx.violation(f"{key}/wrong_value", f"{desc} = {got!r} want {'nan' if estim.is_nan_rat(want) else str(want[0]) + '/' + str(want[1])}"[:400], rp)


def missing(variant, i):
    """a missing value: the np.nan singleton, a FRESH float NaN object (as produced by .tolist() of a numeric column), or None"""
    return (np.nan, float("nan"), None, float("nan"))[(variant + i) % 4]


def coll(codes, kind, vals, variant=0):
    import pandas as pd
    items = [missing(variant, i) if c == 0 else vals[c - 1] for i, c in enumerate(codes)]
    if kind == "list":
        return items
    if kind == "set":
        return set(x for x in items if not (x is None or (isinstance(x, float) and np.isnan(x)))) | ({missing(variant, 0)} if 0 in codes else set())
    if kind == "series":
        return pd.Series(items, dtype=object, index=[2 * i + 1 for i in range(len(items))])
    if kind == "categorical":
        # a categorical column whose declared categories include values that do not occur (a subset of the rows of a larger table)
        present = [None if c == 0 else vals[c - 1] for c in codes]
        return pd.Series(pd.Categorical(present, categories=list(vals)), index=[3 * i for i in range(len(items))])
    if kind == "ndarray":
        arr = np.empty(len(items), dtype=object)        # one-dimensional whatever the elements are
        for i, x in enumerate(items):
            arr[i] = x
        return arr
    raise KeyError(kind)


# element families: strings, numbers, paired-chain clonotypes as tuples (equal lengths), numbers next to their digit strings
VALS = [["CASSF", "CASSY", "CAWF", "x"], [10, 20, 30, 40], [("CAV", "CASSL"), ("CAV", "CASSP"), ("CAI", "CASSL"), ("CASSL", "CAV")], [1, "1", 2, "2"]]


def judge_fof(ctx, n, res, rp):
    import pyrepseq as prs
    for cont, mk in (("list", list), ("ndarray", np.array), ("float_ndarray", lambda v: np.array(v, dtype=float))):
        c = mk(n)
        keep = list(c)
        check(ctx, f"chao1({cont} {n})", lambda: prs.chao1(c), res["chao1"], f"chao1/{cont}", rp)
        check(ctx, f"chao2({cont} {n}, 5)", lambda: prs.chao2(c, (5, 1, 12)[len(n) % 3]), res["chao2"], f"chao2/{cont}", rp)
        check(ctx, f"var_chao1({cont} {n})", lambda: prs.var_chao1(c), res["var"], f"var_chao1/{cont}", rp)
        check(ctx, f"var_chao2({cont} {n}, 5)", lambda: prs.var_chao2(c, (5, 2, 30)[len(n) % 3]), res["var"], f"var_chao2/{cont}", rp)
        if list(c) != keep:
            ctx.violation(f"chao/{cont}/argument_mutated", f"a chao function modified its count vector {keep} -> {list(c)}", rp)


def same_coll(x, y):
    import pandas as pd
    if isinstance(x, pd.Series):
        return x.equals(y) and list(x.index) == list(y.index)
    if isinstance(x, np.ndarray):
        return x.shape == y.shape and x.dtype == y.dtype and all((u == v) or (u != u and v != v) for u, v in zip(x.tolist(), y.tolist()))
    return type(x) is type(y) and (x == y or repr(x) == repr(y))


def judge_sets(ctx, a, b, res, rp, variant):
    import pyrepseq as prs
    vals = VALS[variant % len(VALS)]
    homogeneous = len({type(v) for v in vals}) == 1 and not isinstance(vals[0], tuple)
    for cont in ("list", "set", "series", "ndarray") + (("categorical",) if homogeneous else ()):
        A, B = coll(a, cont, vals, variant), coll(b, cont, vals, variant + 1)
        has_missing = 0 in a or 0 in b
        desc = f"({cont} {a}, {cont} {b}) [0 = missing]"
        snap = (copy.deepcopy(A), copy.deepcopy(B))
        check(ctx, "overlap" + desc, lambda: prs.overlap(A, B), res["overlap"], f"overlap/{cont}", rp)
        check(ctx, "overlap_coefficient" + desc, lambda: prs.overlap_coefficient(A, B), res["coef"], f"overlap_coefficient/{cont}", rp)
        # jaccard_index: missing values are documented to be dropped inside Series only; empty union excluded
        if not estim.is_nan_rat(res["jaccard"]) and (cont in ("series", "categorical") or not has_missing):
            check(ctx, "jaccard_index" + desc, lambda: prs.jaccard_index(A, B), res["jaccard"], f"jaccard_index/{cont}", rp)
            # the caller's collections are used again afterwards, the other way round
            check(ctx, "jaccard_index swapped, same objects again " + desc, lambda: prs.jaccard_index(B, A), res["jaccard"], f"jaccard_index/{cont}/reuse", rp)
        if not (same_coll(A, snap[0]) and same_coll(B, snap[1])):
            ctx.violation(f"overlap_family/{cont}/argument_mutated", f"overlap / overlap_coefficient / jaccard_index changed a caller's collection {desc}: {snap} -> {(A, B)}"[:500], rp)
    if not estim.is_nan_rat(res["jaccard"]):
        for ca, cb in (("series", "list"), ("list", "series"), ("series", "set"), ("ndarray", "series")):
            # the non-Series side must not hold a missing value (documented behaviour)
            if (ca != "series" and 0 in a) or (cb != "series" and 0 in b):
                continue
            A, B = coll(a, ca, vals, variant), coll(b, cb, vals, variant + 1)
            check(ctx, f"jaccard_index({ca} {a}, {cb} {b}) [0 = missing]", lambda: prs.jaccard_index(A, B), res["jaccard"], f"jaccard_index/{ca}-{cb}", rp)


def _replay_item(ctx, i, item):
    kind, k, doc = item
    if kind == "fof":
        ctx.case(dict(kind="fof", counts=doc["n"], spec=doc["res"]), nontrivial=len(doc["n"]) > 1 and doc["n"][1] > 0)
        judge_fof(ctx, doc["n"], doc["res"], dict(kind="replay", doc=doc))
    else:
        ctx.case(dict(kind="sets", a=doc["n"], b=doc["m"], spec=doc["res"]), nontrivial=doc["res"]["overlap"][0] > 0)
        judge_sets(ctx, doc["n"], doc["m"], doc["res"], dict(kind="replay", doc=doc), k)
    ctx.traces += 1


def run(ctx):
    ctx.rule = ("Estimators.tla: chao1, chao2, the classical Chao variance and the three set-overlap measures as exact rationals (NaN as a value), "
                "model-checked for all frequency-of-frequency vectors and all pairs of small collections with missing values (ChaoNotBelowObserved, "
                "OverlapSymmetric). Every enumerated case is executed on the seven functions as list / ndarray (/ set / Series); 'does not raise' is "
                "a clause. Larger sampled vectors are evaluated by TLC on harness-chosen inputs. Non-trivial = f2 > 0 / non-empty intersection.")
    ctx.assumptions = ["jaccard_index is judged with missing values inside Series only and for non-empty unions (its documented behaviour)"]
    q = ctx.quick
    res = estim.run_cfg(ctx, "fof", estim.cfg_text(["fof"], maxlen=3 if q else 4, maxcount=4 if q else 5, invs=INVS))
    ctx.parallel([("fof", 0, doc) for doc in res.printed if "kind" in doc], _replay_item, chunk=500)
    res = estim.run_cfg(ctx, "sets", estim.cfg_text(["sets"], setvals=(1, 2, 3) if q else (1, 2, 3, 4), maxsetlen=3 if q else 4, invs=INVS))
    items = []
    for k, doc in enumerate(ctx.sample([d for d in res.printed if "kind" in d], 200000), 1):
        if q and k % 2:
            continue
        items.append(("sets", mix(k), doc))
    res.printed = []
    ctx.parallel(items, _replay_item, chunk=1000)
    ctx.exhaustive = True
    # negative controls: the as-found variance formula is rejected by TLC; a perturbed code value is rejected by the comparator
    estim.run_cfg(ctx, "NEG_varchao", estim.cfg_text(["fof"], maxlen=2, maxcount=3, mutations=["varchao_asfound"], invs=("VarChaoExpanded",), emit=False),
                  expect_violation=["VarChaoExpanded"], workers=4)
    from ..core import Ctx
    probe = Ctx("C16", ctx.tier, ctx.seed)
    probe._known = []
    import io, contextlib
    with contextlib.redirect_stdout(io.StringIO()):
        check(probe, "probe", lambda: 14.000001, [14, 1], "probe", dict(kind="probe"))
    ctx.negative.append(dict(kind="perturbed_value", rejected=bool(probe.violations)))
    if not probe.violations:
        raise estim.MachineryFailure("comparator accepted a perturbed value")
    sessions = []
    for sid in range(1, (30 if q else 300) + 1):
        if sid % 6 == 1:
            # repertoire-sized singleton / doubleton counts with a small rational ratio f1/f2 (exact in 32-bit rationals)
            f2 = ctx.rng.choice([1000, 5000, 20000, 50000])
            n = [f2 * ctx.rng.choice([1, 2, 3, 6, 12]), f2] + [ctx.rng.randint(0, 900) for _ in range(ctx.rng.randint(0, 3))]
            sessions.append(dict(sid=sid, kind="fof", n=n, m=[]))
        elif sid % 2:
            n = [ctx.rng.randint(0, 9 if i < 2 else 40) for i in range(ctx.rng.randint(1, 8))]   # f1, f2 small: r^4 must fit 32-bit rationals
            sessions.append(dict(sid=sid, kind="fof", n=n, m=[]))
        else:
            a = [ctx.rng.randint(0, 9) for _ in range(ctx.rng.randint(1, 14))]
            b = [ctx.rng.randint(0, 9) for _ in range(ctx.rng.randint(1, 14))]
            sessions.append(dict(sid=sid, kind="sets", n=a, m=b))
    out = estim.evaluate(ctx, sessions, invariants=("ChaoNotBelowObserved", "OverlapSymmetric"))
    # repertoire-sized f1, f2 with arbitrary ratio: the specification evaluates the closed forms in arbitrary precision (BigInt.tla)
    big = []
    for r in range(6 if q else 60):
        f1 = ctx.rng.choice([3, 977, 46341, 65536, 123457, 2000003, 30000001])
        f2 = ctx.rng.choice([1, 2, 7, 1291, 46341, 99991, 1500007])
        big.append(dict(sid=6000 + r, kind="bigfof", n=[f1, f2] + [ctx.rng.randint(0, 5000) for _ in range(ctx.rng.randint(0, 3))], m=[]))
    bout = estim.evaluate(ctx, big)
    import pyrepseq as prs
    for s in big:
        ctx.traces += 1
        n = s["n"]
        ctx.case(dict(kind="sampled:bigfof", n=n), nontrivial=True)
        rp = dict(kind="bigfof", session=s)
        for name, fn, key in (("chao1", lambda a: prs.chao1(a), "chao1"), ("var_chao1", lambda a: prs.var_chao1(a), "var"),
                              ("chao2", lambda a: prs.chao2(a, 7), "chao2"), ("var_chao2", lambda a: prs.var_chao2(a, 7), "var")):
            for form, arr in (("list", list(n)), ("ndarray", np.array(n)), ("int32", np.array(n, dtype=np.int32))):
                try:
                    got = float(fn(arr))
                except Exception as e:      # noqa: BLE001
                    ctx.violation(f"{name}/{form}/large-counts/raised", f"{name}({form} {n}) raised {type(e).__name__}: {e}"[:300], rp)
                    continue
                if not estim.close_big(got, bout[s["sid"]][key]):
                    ctx.violation(f"{name}/{form}/large-counts/wrong_value", f"{name}({form} {n}) = {got!r} want {float(estim.big_fraction(bout[s['sid']][key]))!r}"[:300], rp)
    vals9 = [f"s{i}" for i in range(1, 10)]
    for s in sessions:
        ctx.traces += 1
        ctx.case(dict(kind="sampled:" + s["kind"], n=s["n"], m=s["m"], spec=out[s["sid"]]), nontrivial=True)
        rp = dict(kind="sampled", session=s, spec=out[s["sid"]])
        if s["kind"] == "fof":
            judge_fof(ctx, s["n"], out[s["sid"]], rp)
        else:
            global VALS
            old = VALS
            VALS = [vals9, list(range(100, 109))]
            try:
                judge_sets(ctx, s["n"], s["m"], out[s["sid"]], rp, s["sid"])
            finally:
                VALS = old


def replay(doc):
    from ..core import Ctx
    ctx = Ctx("C16", "quick", 0)
    ctx._known = []
    r = doc["replay"]
    d = r.get("doc") or dict(kind=r["session"]["kind"], n=r["session"]["n"], m=r["session"]["m"], res=r["spec"])
    if d["kind"] == "fof":
        judge_fof(ctx, d["n"], d["res"], r)
    else:
        global VALS
        if max(d["n"] + d["m"] + [0]) > 4:
            VALS = [[f"s{i}" for i in range(1, 10)], list(range(100, 109))]
        judge_sets(ctx, d["n"], d["m"], d["res"], r, 0)
    return 1 if ctx.violations else 0
