"""C17 - resampling and power-law utilities conserve counts and honour their bounds."""
from __future__ import annotations

import copy
import math
import os
import shutil
import tempfile

import numpy as np

from .. import nncommon as nc
from .. import tracecommon as tcm
from ..core import MachineryFailure

INVS = ("SubsampleOK", "NeverOverdraw", "DownsampleOK")
TRACE_CONSTS = "  MaxCats = 1\n  MaxCount = 1\n  MaxItems = 1\n  Kinds = {\"subsample\"}\n  Mutations = {}"


def cfg_text(kinds, maxcats=3, maxcount=3, maxitems=4, mutations=(), invs=INVS, emit=True):
    t = f"SPECIFICATION Spec\nCONSTANTS\n  MaxCats = {maxcats}\n  MaxCount = {maxcount}\n  MaxItems = {maxitems}\n"
    t += "  Kinds = {" + ", ".join(f'"{k}"' for k in kinds) + "}\n"
    t += "  Mutations = {" + ", ".join(f'"{k}"' for k in mutations) + "}\n"
    for i in invs:
        t += f"INVARIANT {i}\n"
    if emit:
        t += "INVARIANT EmitCase\n"
    return t


def run_cfg(ctx, name, text, expect_violation=None, workers=16):
    d = tempfile.mkdtemp(prefix="pvcfg_")
    try:
        p = os.path.join(d, name + ".cfg")
        with open(p, "w") as f:
            f.write(text)
        return ctx.mc("MCResample", p, workers=workers, expect_violation=expect_violation)
    finally:
        shutil.rmtree(d, ignore_errors=True)


def subsample_event(counts, n, seed):
    import pyrepseq as prs
    ev = dict(op="Subsample", counts=list(counts), n=n, raised=False, idx=[], cnt=[])
    np.random.seed(seed)
    try:
        # the count vector as list / array / tuple / pandas Series whose labels are not the positions 0..K-1 (a value_counts() result,
        # a sorted or filtered Series): categories are positions in the vector
        import pandas as pd
        k = len(counts)
        form = seed % 7
        arg = [lambda: np.array(counts), lambda: list(counts), lambda: tuple(counts), lambda: pd.Series(list(counts), index=[f"clone{i}" for i in range(k)], dtype="int64"),
               lambda: pd.Series(list(counts), index=list(range(k))[::-1], dtype="int64"), lambda: np.array(counts, dtype=np.int32),
               lambda: pd.Series(list(counts), index=[3 * i + 2 for i in range(k)], dtype="int64")][form]()
        ev["form"] = ("ndarray", "list", "tuple", "series-string-labels", "series-reversed-labels", "int32", "series-shifted-labels")[form]
        idx, cnt = prs.subsample(arg, n)
        ev["idx"], ev["cnt"] = [int(i) for i in idx], [int(c) for c in cnt]
    except Exception as e:      # noqa: BLE001
        ev.update(raised=True, exc=f"{type(e).__name__}: {e}"[:160])
    return ev


def chi2_uniformity(ctx, counts, n, outcomes, draws):
    """carve-out (i): observed outcome frequencies against the spec's exact distribution prod C(c_i, k_i) / C(total, n);
    judged with a fixed false-alarm probability of 1e-9."""
    from scipy.stats import chi2
    import pyrepseq as prs
    total_w = sum(w for _, w in outcomes)
    freq = {tuple(map(tuple, o)): 0 for o, _ in outcomes}
    for seed in range(draws):
        np.random.seed(1000 + seed + ctx.seed * 7919)
        idx, cnt = prs.subsample(list(counts), n)
        key = tuple((int(i) + 1, int(c)) for i, c in zip(idx, cnt))
        if key not in freq:
            return False, f"outcome {key} is not a reachable outcome"
        freq[key] += 1
    stat = sum((freq[tuple(map(tuple, o))] - draws * w / total_w) ** 2 / (draws * w / total_w) for o, w in outcomes)
    crit = chi2.isf(1e-9, len(outcomes) - 1)
    return stat <= crit, f"chi2={stat:.1f} crit={crit:.1f} df={len(outcomes) - 1} draws={draws}"


def loglik(c, alpha, cmin):
    from scipy.special import zeta
    x = np.asarray([v for v in c if v >= cmin], dtype=float)
    return -len(x) * math.log(zeta(alpha, cmin)) - alpha * float(np.sum(np.log(x)))


def run(ctx):
    import pandas as pd
    import pyrepseq as prs
    ctx.rule = ("Resample.tla: subsample as a machine drawing individual items without replacement (Refuse, Draw(i), Recount) and downsample as "
                "a nondeterministic choice of maxseqs positions are model-checked for all small count vectors and all n (SubsampleOK, "
                "NeverOverdraw, DownsampleOK; the with-replacement mutant is rejected). Every (counts, n) of the model is executed under several "
                "seeds: each outcome must be one of the terminal states TLC enumerated; uniformity is judged by chi-square against the model's "
                "exact outcome weights (false-alarm 1e-9). Sessions for subsample, downsample (lists, arrays, tables), powerlaw_sample and the "
                "inclusion rule of powerlaw_mle_alpha are validated by TraceResample.tla; the ln-based closed forms and the optimiser are "
                "checked numerically by the harness on the spec-selected multiset. Non-trivial = an actual sub-sample (0 < n < total).")
    ctx.assumptions = ["uniformity is a statistical judgement (harness side, 1e-9 false alarm); logarithms and the bounded optimiser are harness side"]
    q = ctx.quick
    res = run_cfg(ctx, "subsample", cfg_text(["subsample", "downsample"], maxcats=3, maxcount=3 if q else 4, maxitems=5))
    groups = {}
    for doc in res.printed:
        if doc.get("kind") == "subsample":
            groups.setdefault((tuple(doc["counts"]), doc["want"]), []).append(doc)
    nseed = 0
    for (counts, n), docs in groups.items():
        allowed = {tuple(map(tuple, d["out"])) for d in docs if not d["err"]}
        refuse = any(d["err"] for d in docs)
        for r in range(2 if q else 5):
            nseed += 1
            ev = subsample_event(counts, n, nseed)
            ctx.case(dict(fn="subsample", counts=list(counts), n=n, seed=nseed, outcome=list(zip(ev["idx"], ev["cnt"]))), nontrivial=0 < n < sum(counts))
            rp = dict(kind="subsample", counts=list(counts), n=n, seed=nseed)
            if refuse:
                if not ev["raised"]:
                    ctx.violation("subsample/oversample_not_refused", f"subsample({list(counts)}, {n}) returned {ev['idx']}, {ev['cnt']} although n exceeds the total {sum(counts)}", rp)
            elif ev["raised"]:
                ctx.violation("subsample/raised", f"subsample({list(counts)}, {n}) raised {ev.get('exc')}", rp)
            elif tuple((i + 1, c) for i, c in zip(ev["idx"], ev["cnt"])) not in allowed:
                ctx.violation("subsample/not_a_reachable_outcome", f"subsample({list(counts)}, {n}) = {ev['idx']}, {ev['cnt']} is not a terminal state of the drawing machine", rp)
        ctx.traces += 1
    # ---- downsample behaviours of the model (every m <= MaxItems, every maxseqs 0..MaxItems and None) on lists, tuples, arrays, tables
    dgroups = {}
    for doc in res.printed:
        if doc.get("kind") == "downsample":
            dgroups.setdefault((doc["m"], doc["want"]), set()).add(tuple(doc["kept"]))
    maxitems = max((m for m, _ in dgroups), default=0)
    for (m, want), allowed in sorted(dgroups.items()):
        vals = [f"CAS{i}F" for i in range(m)]
        for form in ("list", "tuple", "ndarray", "table"):
            data = {"list": list(vals), "tuple": tuple(vals), "ndarray": np.array(vals, dtype=object),
                    "table": pd.DataFrame(dict(CDR3B=vals, pos=list(range(m))), index=[f"r{i % 2}" for i in range(m)])}[form]
            for arg in ([None] if want > maxitems else [want, np.int64(want)]):
                nseed += 1
                np.random.seed(nseed)
                rp = dict(kind="downsample", m=m, maxseqs=None if arg is None else int(arg), form=form, seed=nseed)
                ctx.case(dict(fn="downsample", m=m, maxseqs=rp["maxseqs"], form=form), nontrivial=arg is not None and m > want)
                try:
                    ret = prs.downsample(data, arg)
                    kept = tuple(int(p) + 1 for p in ret["pos"]) if form == "table" else tuple(vals.index(x) + 1 for x in list(ret))
                except Exception as e:      # noqa: BLE001
                    ctx.violation("downsample/raised", f"downsample({form} of {m}, maxseqs={arg!r}) raised {type(e).__name__}: {e}"[:300], rp)
                    continue
                if kept not in allowed:
                    ctx.violation("downsample/not_a_terminal_state", f"downsample({form} of {m} elements, maxseqs={arg!r}) kept positions {kept}: the model keeps "
                                  f"{'everything' if m <= want else f'exactly {want} distinct positions'}", rp)
        ctx.traces += 1
    # uniformity on a few inputs with the model's exact weights
    for (counts, n) in ([((2, 1, 1), 2)] if q else [((2, 1, 1), 2), ((3, 2, 1), 3), ((1, 1, 1), 1), ((3, 3), 4)]):
        docs = groups.get((counts, n))
        if docs:
            ok, info = chi2_uniformity(ctx, counts, n, [(d["out"], d["weight"]) for d in docs], 1500 if q else 6000)
            ctx.extra.setdefault("uniformity", []).append(dict(counts=counts, n=n, info=info, ok=ok))
            if not ok:
                ctx.violation("subsample/not_uniform", f"subsample({list(counts)}, {n}): items are not equally likely to be kept ({info})", dict(kind="uniformity", counts=counts, n=n))
    ctx.exhaustive = True
    # ---- recorded sessions
    sessions = []
    sid = 0
    for r in range(40 if q else 400):
        sid += 1
        typ = r % 4
        if typ == 0:
            counts = [ctx.rng.randint(0, 30) for _ in range(ctx.rng.randint(1, 12))]
            n = ctx.rng.randint(0, sum(counts) + (3 if r % 8 == 0 else 0))
            ev = subsample_event(counts, n, sid)
        elif typ == 1:
            N = ctx.rng.randint(0, 20)
            ms = ctx.rng.choice([0, 1, 3, 10, 25])
            none = ctx.rng.random() < 0.15
            if r % 12 in (1, 5):             # exactly as many elements as maxseqs: nothing to discard, the input comes back unchanged
                N = ctx.rng.randint(2, 9)
                ms, none = N, False
            vals = [ctx.rng.randint(1, 6) for _ in range(N)]
            strs = [f"CAS{v}F" for v in vals]
            form = ctx.rng.choice([0, 1, 2, 2])
            ev = dict(op="Downsample", items=vals, ms=ms, none=none, same=False, ret=[], raised=False)
            try:
                np.random.seed(sid)
                if form == 0:
                    data = list(strs)
                elif form == 1:
                    data = np.array(strs, dtype=object)
                else:
                    # index labels: unique, or repeated as in a pd.concat of several samples without ignore_index
                    index = [f"r{i}" for i in range(N)] if ctx.rng.random() < 0.4 else [i % 3 for i in range(N)]
                    data = pd.DataFrame(dict(CDR3B=strs, v=vals, uid=list(range(N))), index=index)
                ret = prs.downsample(data, None if none else ms)
                ev["same"] = ret is data
                if form == 2:
                    uids = [int(u) for u in ret["uid"]]
                    ok_rows = len(set(uids)) == len(uids) and all(ret["CDR3B"].iloc[k] == strs[u] and int(ret["v"].iloc[k]) == vals[u] for k, u in enumerate(uids))
                    ev["ret"] = [int(v) for v in ret["v"]] if ok_rows else [-5]
                else:
                    ev["ret"] = [int(s[3:-1]) for s in list(ret)]
            except Exception as e:      # noqa: BLE001
                ev.update(raised=True, exc=f"{type(e).__name__}: {e}"[:160])
        elif typ == 2:
            size = ctx.rng.randint(0, 60)
            xmin = ctx.rng.randint(1, 9)
            alpha = ctx.rng.choice([1.2, 1.5, 2.0, 2.5, 3.7])
            if r % 7 == 3:
                size, alpha, xmin = 300, (1e12, 1e15, 1e18, 1e9)[(r // 7) % 4], ctx.rng.choice([1, 3, 7, 101])
            if r % 5 == 2:
                # heavy tail: legal exponents close to 1 draw astronomically large (still integer-valued, >= xmin) numbers
                size, alpha = 1500, (1.05, 1.1, 1.15)[(r // 20) % 3]
            ev = dict(op="PowerSample", size=size, xmin=xmin, raised=False, ret=[])
            try:
                np.random.seed(sid)
                ret = prs.powerlaw_sample(size=size, xmin=float(xmin) if r % 8 == 2 else xmin, alpha=alpha)
                ev["ret"] = [encode_sample(v) for v in np.asarray(ret).tolist()]
            except Exception as e:      # noqa: BLE001
                ev.update(raised=True, exc=f"{type(e).__name__}: {e}"[:160])
        else:
            c = [ctx.rng.randint(1, 40) for _ in range(ctx.rng.randint(3, 30))]
            cminr = [[1, 1], [2, 1], [3, 1], [5, 2], [7, 2]][(r // 12) % 5]           # every cutoff with every sample shape, in turn
            shape = (r // 4) % 3
            if shape == 1:
                # steep: almost every count at the cutoff, a few just above it (maximisers between 3 and the upper bound 4.5)
                base = cminr[0] // cminr[1] + (1 if cminr[0] % cminr[1] else 0)
                c = [base + (0 if ctx.rng.random() < 0.9 else ctx.rng.choice([1, 1, 2])) for _ in range(ctx.rng.randint(60, 300))]
                c[0] = base + 1
            elif shape == 2:
                # heavy tail: a Zipf-like sample with a few very large clones (maximisers near the lower bound 1.5)
                c = [max(1, int(1.0 / (ctx.rng.random() ** 1.6 + 1e-4))) for _ in range(ctx.rng.randint(20, 120))]
            cmin = cminr[0] / cminr[1]
            c += [int(cmin), int(cmin) + 1, max(1, int(cmin) - 1)]       # counts just below / at / above the threshold (and within 1/2 of it)
            ctx.rng.shuffle(c)
            sel = [x for x in c if x >= cmin]
            ev = dict(op="MleSelect", c=c, cmin=cminr, sel=sel)
            if len(sel) >= 2 and any(x > cmin for x in sel):
                rp = dict(kind="mle", c=c, cmin=cmin)
                try:
                    want_s = 1.0 + len(sel) / sum(math.log(x / cmin) for x in sel)
                    got_s = prs.powerlaw_mle_alpha(c, cmin=cmin, method="simple")
                    if abs(got_s - want_s) > 1e-9 * abs(want_s):
                        ctx.violation("powerlaw_mle_alpha/simple/wrong_value", f"powerlaw_mle_alpha({c}, cmin={cmin}, 'simple') = {got_s} want {want_s}", rp)
                    want_c = 1.0 + len(sel) / sum(math.log(x / (cmin - 0.5)) for x in sel)
                    got_c = prs.powerlaw_mle_alpha(c, cmin=cmin, method="continuitycorrection")
                    if abs(got_c - want_c) > 1e-9 * abs(want_c):
                        ctx.violation("powerlaw_mle_alpha/continuitycorrection/wrong_value", f"powerlaw_mle_alpha({c}, cmin={cmin}, 'continuitycorrection') = {got_c} want {want_c}", rp)
                    if cminr[1] == 1:
                        if r % 8 == 3:
                            # a call with its own optimiser options first: it must honour them, and they must not leak into the next call
                            lo, hi = ctx.rng.choice([(2.0, 2.5), (1.6, 1.9), (3.5, 4.0)])
                            got_b = prs.powerlaw_mle_alpha(np.array(c), cmin=cmin, method="exact", bounds=[lo, hi])
                            gridb = np.linspace(lo, hi, 101)
                            bestb = max(loglik(c, a, cmin) for a in gridb)
                            if not (lo - 1e-9 <= got_b <= hi + 1e-9) or loglik(c, got_b, cmin) < bestb - 1e-4 * max(1.0, abs(bestb)):       # optimiser tolerance (xatol) near a bound
                                ctx.violation("powerlaw_mle_alpha/exact/custom_bounds_not_honoured", f"powerlaw_mle_alpha({c}, cmin={cmin}, 'exact', bounds=[{lo},{hi}]) = {got_b}", rp)
                        got_e = prs.powerlaw_mle_alpha(np.array(c), cmin=cmin, method="exact")
                        grid = np.linspace(1.5, 4.5, 301)
                        best = max(loglik(c, a, cmin) for a in grid)
                        if not (1.5 - 1e-9 <= got_e <= 4.5 + 1e-9) or loglik(c, got_e, cmin) < best - 1e-4 * max(1.0, abs(best)):
                            ctx.violation("powerlaw_mle_alpha/exact/not_a_maximiser", f"powerlaw_mle_alpha({c}, cmin={cmin}, 'exact') = {got_e}: loglik {loglik(c, got_e, cmin)} < grid max {best}", rp)
                    ctx.evaluations += 3
                except Exception as e:      # noqa: BLE001
                    ctx.violation("powerlaw_mle_alpha/raised", f"powerlaw_mle_alpha({c}, cmin={cmin}) raised {type(e).__name__}: {e}"[:300], rp)
        sessions.append(dict(sid=sid, events=[ev]))
    verd = tcm.validate(ctx, "TraceResample", sessions, constants=TRACE_CONSTS)
    for s in sessions:
        ctx.traces += 1
        ev = s["events"][0]
        ctx.case(dict(kind="session:" + ev["op"], ev={k: (v if not isinstance(v, list) else v[:8]) for k, v in ev.items() if k != "op"}), nontrivial=True)
        for l, op, clause in tcm.failures(verd[s["sid"]]):
            if clause == "harness_selection_differs":
                raise MachineryFailure("harness selection for powerlaw_mle_alpha differs from the specification's inclusion rule")
            fn = {"Subsample": "subsample", "Downsample": "downsample", "PowerSample": "powerlaw_sample"}[op]
            ctx.violation(f"{fn}/{clause}", f"{fn} session {ev}: {clause}"[:500], dict(kind="session", session=s))
    # negative controls
    c = copy.deepcopy(next(s for s in sessions if s["events"][0]["op"] == "Subsample" and s["events"][0]["cnt"]))
    c["sid"] = 990001
    c["events"][0]["cnt"][0] += 1
    v = tcm.validate(ctx, "TraceResample", [c], constants=TRACE_CONSTS, count=False)
    ok = any(cl == "not_a_reachable_outcome" for _, _, cl in tcm.failures(v[c["sid"]]))
    ctx.negative.append(dict(kind="corrupted_trace", corruption="subsample_count", rejected=ok))
    if not ok:
        raise MachineryFailure("corrupted subsample trace accepted")
    run_cfg(ctx, "NEG_repl", cfg_text(["subsample"], maxcats=2, maxcount=2, mutations=["with_replacement"], invs=("SubsampleOK", "NeverOverdraw"), emit=False),
            expect_violation=["SubsampleOK", "NeverOverdraw"], workers=4)


def encode_sample(v):
    """a drawn number for TLC: itself when it is a 32-bit integer value, 2^30 for larger integer values (and +inf), -1 when it is
    not integer-valued (or NaN), -2 for integer values below -2^30"""
    v = float(v)
    if v != v:
        return -1
    if v in (float("inf"),):
        return 2 ** 30
    if v == float("-inf"):
        return -2
    if v != math.floor(v):
        return -1
    if v >= 2 ** 30:
        return 2 ** 30
    if v <= -2 ** 30:
        return -2
    return int(v)


def replay(doc):
    r = doc["replay"]
    if r.get("kind") == "subsample":
        ev = subsample_event(r["counts"], r["n"], r["seed"])
        print(ev)
        tot = sum(r["counts"])
        bad = (r["n"] > tot and not ev["raised"]) or (r["n"] <= tot and (ev["raised"] or sum(ev["cnt"]) != r["n"] or any(c > r["counts"][i] for i, c in zip(ev["idx"], ev["cnt"]))))
        return 1 if bad else 0
    print("re-run ./check C17")
    return 1
