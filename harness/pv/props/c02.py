"""C02 - coincidence probability pc is the exact fraction of coinciding pairs."""
from __future__ import annotations

import copy
import os
import shutil
import tempfile

import numpy as np

from .. import ratio
from .. import tracecommon as tcm
from ..core import MachineryFailure, mix


def cfg_text(kinds, maxn=2, maxn2=0, vals=(1, 2), cells="Cells3", maxcols=0, maxrows=2, mutations=(), emit=True,
             invs=("PcExact", "InUnitInterval", "MultisetOnly", "JoinInjective")):
    t = "SPECIFICATION Spec\nCONSTANTS\n"
    t += f"  MaxN = {maxn}\n  MaxN2 = {maxn2}\n  Vals = {{{', '.join(map(str, vals))}}}\n  CellStrs <- {cells}\n"
    t += f"  MaxCols = {maxcols}\n  MaxRows = {maxrows}\n"
    t += "  Kinds = {" + ", ".join(f'"{k}"' for k in kinds) + "}\n"
    t += "  Mutations = {" + ", ".join(f'"{k}"' for k in mutations) + "}\n"
    for i in invs:
        t += f"INVARIANT {i}\n"
    if emit:
        t += "INVARIANT EmitCase\n"
    return t


def run_cfg(ctx, module, name, text, expect_violation=None, workers=16):
    d = tempfile.mkdtemp(prefix="pvcfg_")
    try:
        p = os.path.join(d, name + ".cfg")
        with open(p, "w") as f:
            f.write(text)
        return ctx.mc(module, p, workers=workers, expect_violation=expect_violation)
    finally:
        shutil.rmtree(d, ignore_errors=True)


def model_runs(quick):
    if quick:
        return [("one", cfg_text(["one", "counts"], maxn=6, vals=(1, 2, 3, 4))),
                ("two", cfg_text(["two"], maxn=3, maxn2=3, vals=(1, 2, 3))),
                ("table", cfg_text(["table"], maxcols=2, maxrows=3, cells="Cells2")),
                ("table3", cfg_text(["table"], maxcols=3, maxrows=2, cells="Cells2")),
                ("table2", cfg_text(["table2"], maxcols=2, maxrows=2, maxn2=1, cells="Cells2"))]
    return [("one", cfg_text(["one", "counts"], maxn=7, vals=(1, 2, 3, 4))),
            ("two", cfg_text(["two"], maxn=4, maxn2=4, vals=(1, 2, 3, 4))),
            ("table", cfg_text(["table"], maxcols=2, maxrows=4, cells="Cells3")),
            ("table3", cfg_text(["table"], maxcols=3, maxrows=3, cells="Cells3")),
            ("table4", cfg_text(["table"], maxcols=4, maxrows=3, cells="Cells2")),
            ("table2", cfg_text(["table2"], maxcols=2, maxrows=3, maxn2=2, cells="Cells2"))]


# ---------------------------------------------------------------- concrete instantiations

# (tuples as elements are not judged: the quantifier lists strings, numbers and table rows; np.asarray turns a list of
#  equal-length tuples into a 2-d array whose cells are counted one by one - observed, recorded in DESIGN.md 9.4)
VALUE_KINDS = ["str", "int", "float", "npstr", "series_odd", "oddint", "oddfloat"]
# distinct numbers that are easily confused: equal Python hashes (-1 / -2, 0 / 2**61-1), equal after rounding, signed zero apart
ODDINT = [-1, -2, 0, 2 ** 61 - 1, 2 ** 61, -3, 1, 10 ** 15, 10 ** 15 + 1, 7, 8, 9]
ODDFLOAT = [-1.0, -2.0, 0.1, 0.1 + 2 ** -55, 1e-300, 1.5, 1e16, 1e16 + 2, 2.5, 3.5, 4.5, 5.5]
STRS = ["CASSLGQAYEQYF", "CASSLGQAYEQF", "CAS", "", "x y", "CASSLGQAYEQYF "]
# variants 2-3 put whole numbers into the first column: small ints and ids of seven digits (distinct only in the 7th significant
# digit). Floats are outside the property's quantifier (their text contains the join character '.').
CELLTEXT = [{1: "A", 2: "B"}, {1: "x", 2: "yz"}, {1: "1", 2: "2"}, {1: "1000001", 2: "1000002"}]


def sample_of(vals, kind):
    import pandas as pd
    if kind == "str":
        return [STRS[v - 1] for v in vals]
    if kind == "int":
        return [v * 10 for v in vals]
    if kind == "float":
        return [v + 0.5 for v in vals]
    if kind == "oddint":
        return [ODDINT[v - 1] for v in vals]
    if kind == "oddfloat":
        return [ODDFLOAT[v - 1] for v in vals]
    if kind == "npstr":
        return np.array([STRS[v - 1] for v in vals])
    if kind == "series_odd":
        return pd.Series([STRS[v - 1] for v in vals], index=[3 * i + 1 for i in range(len(vals))])
    raise KeyError(kind)


def cell_text(cell, m, numeric=False):
    if not cell:
        return np.nan
    t = "".join(m[c] for c in cell)
    return int(t) if numeric and t.isdigit() else t


def table_of(rows, variant):
    import pandas as pd
    m = CELLTEXT[variant % len(CELLTEXT)]
    ncol = len(rows[0]) if rows else 0
    v = variant % len(CELLTEXT)
    numeric = v in (2, 3)
    cols = [["CDR3A", "CDR3B", "TRBV", "extra"][c] for c in range(ncol)]
    data = {cols[c]: pd.Series([cell_text(r[c], m, numeric if c == 0 else False) for r in rows], dtype=object) for c in range(ncol)}
    if numeric and ncol and (variant // len(CELLTEXT)) % 2 == 0 and all(r[0] for r in rows):
        try:
            data[cols[0]] = pd.Series([cell_text(r[0], m, numeric) for r in rows], dtype="int64")       # a genuinely numeric column
        except (OverflowError, ValueError):
            pass
    df = pd.DataFrame(data)
    if variant % 2:
        df.index = [f"r{i}" for i in range(len(rows))][::-1]
    return df


def check_value(ctx, desc, fn, want, key, replay):
    try:
        got = fn()
    except Exception as e:     # noqa: BLE001
        ctx.violation(f"{key}/raised", f"{desc} raised {type(e).__name__}: {e}"[:500], replay)
        return
    if not ratio.eq(got, want):
        ctx.violation(f"{key}/wrong_value", f"{desc} = {got!r} want {want[0]}/{want[1]}"[:500], replay)


def replay_doc(ctx, doc, n):
    import pyrepseq as prs
    kind, a, b, want = doc["kind"], doc["a"], doc["b"], doc["res"]
    rp = dict(kind="replay", doc=doc)
    if kind == "counts":
        ctx.case(dict(fn="pc_n", counts=a), nontrivial=len(a) > 1)
        check_value(ctx, f"pc_n({a})", lambda: prs.pc_n(a), want, "pc_n/list", rp)
        check_value(ctx, f"pc_n(np.array({a}))", lambda: prs.pc_n(np.array(a)), want, "pc_n/ndarray", rp)
        return
    if kind in ("one", "two"):
        if kind in ("one", "two"):
            xa = np.array(sample_of(a, "str"))
            keep = xa.copy()
            kcut = max(1, len(xa) // 2)
            want_view = None
            got1 = prs.pc(xa) if len(xa) >= 2 else None
            if not np.array_equal(xa, keep):
                ctx.violation("pc/one/argument_mutated", f"pc(ndarray {keep.tolist()}) changed the caller's array to {xa.tolist()}", rp)
            else:
                # the same buffer as both samples: pc(x, x[:k]) counts the cross pairs of x and its first k elements
                cross = sum(1 for u in keep for v_ in keep[:kcut] if u == v_)
                gotv = prs.pc(xa, xa[:kcut])
                if abs(float(gotv) - cross / (len(keep) * kcut)) > 1e-12 or not np.array_equal(xa, keep):
                    ctx.violation("pc/two/view_of_first_sample", f"pc(x, x[:{kcut}]) with x = {keep.tolist()} gave {gotv} want {cross}/{len(keep) * kcut}", rp)
        for vk in (VALUE_KINDS if n % 4 == 0 else [VALUE_KINDS[n % len(VALUE_KINDS)], "str"]):
            x = sample_of(a, vk)
            ctx.case(dict(fn="pc", kind=kind, a=a, b=b, values=vk), nontrivial=len(set(a)) < len(a))
            if kind == "one":
                check_value(ctx, f"pc({list(x)!r})", lambda: prs.pc(x), want, f"pc/one/{vk}", rp)
            else:
                y = sample_of(b, vk)
                check_value(ctx, f"pc({list(x)!r}, {list(y)!r})", lambda: prs.pc(x, y), want, f"pc/two/{vk}", rp)
        return
    # tables
    for variant in (((n % 6), (n + 3) % 6) if not ctx.quick else ((n % 6),)):
        df = table_of(a, variant)
        cols = list(df.columns)
        before = df.copy(deep=True)
        ctx.case(dict(fn="pc/pc_joint", kind=kind, rows=a, rows2=b, variant=variant), nontrivial=len({str(r) for r in a}) < len(a))
        if kind == "table":
            check_value(ctx, f"pc(DataFrame {df.values.tolist()})", lambda: prs.pc(df), want, "pc/table", rp)
            check_value(ctx, f"pc_joint(DataFrame {df.values.tolist()}, {cols})", lambda: prs.pc_joint(df, cols), want, "pc_joint/table", rp)
            tok = ("|", "--", " ", "_")[n % 4]
            check_value(ctx, f"pc_joint(DataFrame {df.values.tolist()}, {cols}, gap_token={tok!r})", lambda: prs.pc_joint(df, cols, gap_token=tok), want, "pc_joint/table/gap_token", rp)
            if len(cols) == 2 and not df.isna().any().any():
                check_value(ctx, f"pc((colA, colB)) {df.values.tolist()}", lambda: prs.pc((list(df[cols[0]]), list(df[cols[1]]))), want, "pc/tuple", rp)
                import pandas as pd
                sa = pd.Series(list(df[cols[0]]), index=range(10, 10 + len(df)), dtype=object)
                sb = pd.Series(list(df[cols[1]]), index=list(range(len(df)))[::-1], dtype=object)
                check_value(ctx, f"pc((Series colA, Series colB with other index labels)) {df.values.tolist()}", lambda: prs.pc((sa, sb)), want, "pc/tuple/series", rp)
        else:
            df2 = table_of(b, variant)
            check_value(ctx, f"pc(DataFrame {df.values.tolist()}, DataFrame {df2.values.tolist()})", lambda: prs.pc(df, df2), want, "pc/table2", rp)
            check_value(ctx, f"pc_joint(df {df.values.tolist()}, {cols}, df2 {df2.values.tolist()})", lambda: prs.pc_joint(df, cols, df2), want, "pc_joint/table2", rp)
            tok = ("|", "--", " ", "_")[n % 4]
            check_value(ctx, f"pc_joint(df {df.values.tolist()}, {cols}, df2 {df2.values.tolist()}, gap_token={tok!r})", lambda: prs.pc_joint(df, cols, df2, gap_token=tok), want, "pc_joint/table2/gap_token", rp)
        if not before.equals(df):
            ctx.violation("pc/table/argument_mutated", f"pc/pc_joint modified the caller's table {before.values.tolist()}", rp)


# ---------------------------------------------------------------- code -> spec

def zipf_sample(rng, n, v):
    w = [1.0 / (i + 1) for i in range(v)]
    return rng.choices(range(1, v + 1), weights=w, k=n)


def make_sessions(ctx, n):
    import pyrepseq as prs
    out = []
    for sid in range(1, n + 1):
        k = ("one", "two", "table", "counts", "table2")[sid % 5]
        a, b, fn, args = [], [], None, None
        if k in ("one", "two"):
            large = sid % 20 in (1, 5, 6, 10)              # samples far beyond the exhaustive bounds (size thresholds, bulk code paths)
            a = zipf_sample(ctx.rng, ctx.rng.choice([1025, 2049, 4097, 5000]) if large else ctx.rng.randint(2, 40), ctx.rng.randint(1, 12))
            vk = ctx.rng.choice(["int", "float", "oddint", "oddfloat"])
            if k == "two":
                b = zipf_sample(ctx.rng, ctx.rng.choice([700, 3000]) if large else ctx.rng.randint(1, 40), ctx.rng.randint(1, 12))
                call = lambda: prs.pc(sample_of(a, vk), sample_of(b, vk))      # noqa: E731
            else:
                call = lambda: prs.pc(sample_of(a, vk))                         # noqa: E731
        elif k == "counts":
            a = [ctx.rng.randint(1, 9) for _ in range(ctx.rng.randint(1, 8))]
            if sum(a) < 2:
                a[0] += 2
            # the multiplicity vector in every integer width (and as floats, as a Series): the pair count sum n(n-1) may exceed
            # the width of the vector's own dtype although every entry (and every term) fits it
            dt = ("int64", "uint8", "int16", "uint16", "int32", "float64", "series", "list")[mix(sid) % 8]
            if dt == "uint8":
                a = [ctx.rng.randint(8, 40) for _ in range(ctx.rng.randint(3, 5))]
            elif dt in ("int16", "uint16", "series"):
                a = [ctx.rng.randint(140, 300) for _ in range(ctx.rng.randint(2, 3))]
            elif dt in ("int32", "float64"):
                a = [ctx.rng.randint(1, 300) for _ in range(ctx.rng.randint(2, 5))]
            if dt == "list":
                call = lambda: prs.pc_n(list(a))                                # noqa: E731
            elif dt == "series":
                import pandas as pd
                call = lambda: prs.pc_n(pd.Series(a, index=[f"c{i}" for i in range(len(a))], dtype="int16"))   # noqa: E731
            else:
                call = lambda: prs.pc_n(np.array(a, dtype=dt))                  # noqa: E731
        else:
            ncol = ctx.rng.randint(1, 4)
            cells = [[], [1], [2], [1, 2], [2, 1], [1, 1]]
            fam = [[ctx.rng.choice(cells) for _ in range(ncol)] for _ in range(3)]
            def row():
                r = list(ctx.rng.choice(fam))
                if ctx.rng.random() < 0.3:
                    r[ctx.rng.randrange(ncol)] = ctx.rng.choice(cells)
                return r
            a = [row() for _ in range(ctx.rng.randint(2, 12))]
            v = (sid // 5) % 6                                      # every cell-text variant in turn, not left to the draw
            if mix(sid) % 2 == 0 or v == 3:
                # two rows that differ in one single-letter cell of the first column only ("1000001" / "1000002" in variant 3)
                a[0] = list(a[0])
                a[0][0] = [1]
                a.append([[2]] + [list(c) for c in a[0][1:]])
            if k == "table2":
                b = [row() for _ in range(ctx.rng.randint(1, 8))]
                if sid % 2:
                    call = lambda: prs.pc(table_of(a, v), table_of(b, v))      # noqa: E731
                else:
                    call = lambda: prs.pc_joint(table_of(a, v), list(table_of(a, v).columns), table_of(b, v))   # noqa: E731
            else:
                if sid % 2:
                    call = lambda: prs.pc(table_of(a, v))                       # noqa: E731
                else:
                    call = lambda: prs.pc_joint(table_of(a, v), list(table_of(a, v).columns))   # noqa: E731
        raised, ret, special = False, [0, 1], ""
        if k in ("one", "two") and len(a) > 1000:
            ev = dict(op="PcBig", raised=False, num=0, integral=False)
            try:
                x = float(call()) * (len(a) * (len(b) if b else len(a) - 1))
                ev.update(num=int(round(x)), integral=abs(x - round(x)) <= 1e-6 * max(1.0, abs(x)))
            except Exception:       # noqa: BLE001
                ev["raised"] = True
            out.append(dict(sid=sid, kind=k, a=a, b=b, big=True, events=[ev]))
            continue
        try:
            ret, special = ratio.snap(call())
        except Exception:       # noqa: BLE001
            raised = True
        out.append(dict(sid=sid, kind=k, a=a, b=b, events=[dict(op="Pc", raised=raised, ret=ret, special=special)],
                        form=(f"pc_n({dt} vector)" if k == "counts" else "")))
    return out


TRACE_CONSTS = "  MaxN = 2\n  MaxN2 = 0\n  Vals = {1}\n  CellStrs = {}\n  MaxCols = 0\n  MaxRows = 2\n  Kinds = {\"one\"}\n  Mutations = {}"


def _replay_item(ctx, i, item):
    replay_doc(ctx, item[1], item[0])
    ctx.traces += 1


def run(ctx):
    ctx.rule = ("Coincidence.tla (Convert: cell-wise serialisation with a separator; CountUnique; Combine) is model-checked for all "
                "multiplicity patterns up to a size bound, all pairs of small samples and all small tables with missing cells against "
                "the pair-counting definition (PcExact, InUnitInterval, MultisetOnly, JoinInjective). spec->code: every terminal "
                "behaviour is executed on pc / pc_n / pc_joint with strings, ints, floats, numpy strings, Series with odd index, "
                "DataFrames with mixed dtypes and prefix-ambiguous cells, legacy tuple form; code->spec: random Zipf samples and tables "
                "validated by TraceCoincidence.tla. Non-trivial = some element repeated.")
    ctx.assumptions = ["cells do not contain the join characters '.'/'_' (quantifier of the property)", "floats snapped to rationals with denominator <= 1e6 (true denominators <= 1640)"]
    n = 0
    runs = model_runs(ctx.quick)
    results = ctx.mc_batch("MCCoincidence", [(name, text, None) for name, text in runs], parallel=3, workers=5, timeout=2400)
    for name, text in runs:
        res = results[name]
        items = []
        for doc in ctx.sample([d for d in res.printed if "kind" in d], 60000):
            n += 1
            items.append((n, doc))
        res.printed = []
        ctx.parallel(items, _replay_item, chunk=500)
    ctx.exhaustive = True
    sessions = make_sessions(ctx, 60 if ctx.quick else 600)
    verd = tcm.validate(ctx, "TraceCoincidence", [s for s in sessions if not s.get("big")], constants=TRACE_CONSTS, invariants=("PcExact", "InUnitInterval", "JoinInjective"))
    # large samples: the pair-counting definition itself (PcExact) is quadratic, only the machine is stepped
    bigs = [{k: v for k, v in s.items() if k != "big"} for s in sessions if s.get("big")]
    if bigs:
        verd.update(tcm.validate(ctx, "TraceCoincidence", bigs, constants=TRACE_CONSTS))
    for s in sessions:
        ctx.traces += 1
        ctx.case(dict(kind="session:" + s["kind"], n=len(s["a"]), n2=len(s["b"]), ret=s["events"][0].get("ret", s["events"][0].get("num"))), nontrivial=True)
        for l, op, clause in tcm.failures(verd[s["sid"]]):
            ctx.violation(f"pc/{s['kind']}/session/{clause}", f"pc-family call {s.get('form', '')} on {s['kind']} a={s['a']} b={s['b']}: {clause}, returned {s['events'][0]}"[:500],
                          dict(kind="session", session=s))
    # corrupted trace
    c = copy.deepcopy(next(s for s in sessions if not s.get("big")))
    c["sid"] = 990001
    c["events"][0]["ret"] = [c["events"][0]["ret"][0] + 1, c["events"][0]["ret"][1] + 1]
    v = tcm.validate(ctx, "TraceCoincidence", [c], constants=TRACE_CONSTS, count=False)
    ok = any(cl == "wrong_value" for _, _, cl in tcm.failures(v[c["sid"]]))
    ctx.negative.append(dict(kind="corrupted_trace", corruption="value", rejected=ok))
    if not ok:
        raise MachineryFailure("corrupted pc trace accepted")
    # spec mutants
    run_cfg(ctx, "MCCoincidence", "NEG_nsq", cfg_text(["one"], maxn=4, vals=(1, 2), mutations=["n_squared"], emit=False, invs=["PcExact"]),
            expect_violation=["PcExact"], workers=4)
    run_cfg(ctx, "MCCoincidence", "NEG_nosep", cfg_text(["table"], maxcols=2, maxrows=2, cells="Cells3", mutations=["no_separator"], emit=False,
                                                         invs=["PcExact", "JoinInjective"]), expect_violation=["PcExact", "JoinInjective"], workers=4)


def replay(doc):
    from ..core import Ctx
    ctx = Ctx("C02", "quick", 0)
    ctx._known = []
    r = doc["replay"]
    if r.get("kind") == "replay":
        for n in range(6):
            replay_doc(ctx, r["doc"], n)
        return 1 if ctx.violations else 0
    print("re-run ./check C02 (sessions are regenerated from the seed)")
    return 1
