"""C18 - input cleaning is total, cell-local and never alters the caller's table."""
from __future__ import annotations

import json
import os
import shutil
import tempfile

import numpy as np

from .. import nncommon as nc
from ..core import MachineryFailure, mix

STD_ORDER = ["CDR3A", "TRAV", "TRAJ", "MHCA", "CDR3B", "TRBV", "TRBJ", "MHCB", "Epitope"]
# concrete cell texts per standard column: id 1 valid, 2 non-standard spelling, 3 junk
POOL = {
    # id 1 valid, 2 non-standard spelling, 3 junk, 4 valid but special (non-functional gene / needs C..F completion / protein-level MHC)
    # id 5 / 6: look well-formed to a casual test but are changed (or rejected) by the standardiser: CDR3 ending in C, lower case,
    # gene without allele / with a trailing blank, peptide with a blank
    "CDR3A": ["CAVRDSNYQLIW", "AVRDSNYQLI", "C1VR", "AVRDSNYQLIW", "CAVC", "cavrdsnyqliw"],
    "CDR3B": ["CASSLGQAYEQYF", "ASSLGQAYEQY", "not a cdr3", "CASSLGQAYEQY", "CASSPGC", "C"],
    "TRAV": ["TRAV12-2*01", "av26.1*1", "unknown", "TRAV8-5*01", "TRAV12-2", "TRAV12-2*01 "], "TRBV": ["TRBV7-9*01", "TCRBV28S1*01", "foobar", "TRBV1*01", "TRBV7-9", "trbv7-9*01"],
    "TRAJ": ["TRAJ43*01", "aj43*1", "unknown", "TRAJ51*01", "TRAJ43", "TRAJ43*01 "], "TRBJ": ["TRBJ2-7*01", "TCRBJ2S6*01", "n/a", "TRBJ2-2P*01", "TRBJ2-7", "trbj2-7*01"],
    "MHCA": ["HLA-A*02:01", "b8", "zzz", "HLA-DRA*01:01", "HLA-A2", "HLA-A*02"], "MHCB": ["B2M", "b2m", "???", "HLA-DRB1*15:01", "HLA-B*07", "DRB1*15:01"],
    "Epitope": ["GILGFVFTL", "gilgfvftl", "NOT-A-PEPTIDE-1", "NLVPMVATV", "GILGFVFTL ", "GILGFVFTC"],
}
# executed in this order in ONE interpreter: the options of an earlier call must not influence a later one (the default set
# comes again after the permissive one)
OPTION_SETS = [dict(tcr_enforce_functional=False, strict_cdr3_standardization=True), dict(tcr_precision="allele"), dict(),
               dict(mhc_precision="allele"), dict(tcr_precision="allele", mhc_precision="allele"), dict(species="musmusculus"), dict()]
INVS = ("CellLocal", "MissingStaysMissing", "ExtraColumnsKept", "MergeIsJoin")


def oracle(col, text, o):
    """what tidytcells returns for ONE cell under the documented options (trusted per-cell oracle)"""
    import tidytcells as tt
    species = o.get("species", "HomoSapiens")
    if col.startswith("CDR3"):
        return tt.junction.standardize(seq=text, strict=o.get("strict_cdr3_standardization", False), suppress_warnings=True)
    if col[:2] == "TR":
        return tt.tr.standardize(gene=text, species=species, enforce_functional=o.get("tcr_enforce_functional", True),
                                 precision=o.get("tcr_precision", "gene"), suppress_warnings=True)
    if col.startswith("MHC"):
        return tt.mh.standardize(gene=text, species=species, precision=o.get("mhc_precision", "gene"), suppress_warnings=True)
    return tt.aa.standardize(seq=text, on_fail="keep", suppress_warnings=True)


class Interner:
    """cell text <-> id per standard column; ids 1..3 are the pool, oracle outputs get new ids, None/NaN = 0"""

    def __init__(self, opts):
        self.ids = {c: {t: i + 1 for i, t in enumerate(POOL[c])} for c in STD_ORDER}
        self.table = []
        for c in STD_ORDER:
            row = []
            for t in POOL[c]:
                out = oracle(c, t, opts)
                row.append(self.id_of(c, out))
            self.table.append(row)

    def id_of(self, col, text):
        if text is None or (isinstance(text, float) and np.isnan(text)):
            return 0
        d = self.ids[col]
        if text not in d:
            d[text] = len(d) + 1
        return d[text]


def cfg_text(kinds, maxlen=3, chars=(1, 4, 18, 0, 20, 21, 22), maxrows=2, colsets="CS1", maxtables=3, keyvals=(1, 2, 3), mutations=(), invs=INVS, emit=True, cellids=(1, 2, 3, 4)):
    t = "SPECIFICATION Spec\nCONSTANTS\n"
    t += f"  MaxLen = {maxlen}\n  Chars = {{{', '.join(map(str, chars))}}}\n  MaxRows = {maxrows}\n  ColSets <- {colsets}\n  CellIds = {{{', '.join(map(str, cellids))}}}\n"
    t += f"  MaxTables = {maxtables}\n  KeyVals = {{{', '.join(map(str, keyvals))}}}\n"
    t += "  Kinds = {" + ", ".join(f'"{k}"' for k in kinds) + "}\n"
    t += "  Mutations = {" + ", ".join(f'"{k}"' for k in mutations) + "}\n"
    for i in invs:
        t += f"INVARIANT {i}\n"
    if emit:
        t += "INVARIANT EmitCase\n"
    t += "PROPERTY InputUnchanged\n"
    return t


def run_cfg(ctx, name, text, stdfile, expect_violation=None, workers=16):
    d = tempfile.mkdtemp(prefix="pvcfg_")
    try:
        p = os.path.join(d, name + ".cfg")
        with open(p, "w") as f:
            f.write(text)
        return ctx.mc("MCCleaning", p, workers=workers, expect_violation=expect_violation, env={"PV_STDFN": stdfile})
    finally:
        shutil.rmtree(d, ignore_errors=True)


# ---------------------------------------------------------------- predicates

# concrete characters of the non-amino-acid classes: 20 other printable / look-alike characters, 21 lower case, 22 line ends and
# other control characters (what an unstripped line of a file carries)
NONAA = {20: ["X", "1", " ", "*", "B", "-", ".", "\u0421", "\u00e9", "Z", "O", "U"], 21: ["c", "a", "f", "w"], 22: ["\n", "\r", "\t", "\x00", "\n"]}


def concrete_objects(obj, n):
    import pandas as pd
    if obj["class"] == "str":
        s = "".join(nc.AA[c] if c < 20 else NONAA[c][n % len(NONAA[c])] for c in obj["s"])
        return [s, np.str_(s)] if n % 3 == 0 else [s]
    return {"missing": [None, np.nan, float("nan"), pd.NA, pd.NaT], "number": [0, 5, -3, 1.5, np.int64(4), np.float64(2.0)],
            "container": [[], ["C", "A", "F"], (), ("C",), {}, {"C": 1}, set(), {"C", "F"}, object(), range(3), np.array(["C", "F"]), ["CAF", "CF"]],
            "bytes": [b"CASF", b"", bytearray(b"CF")]}[obj["class"]]


def replay_pred(ctx, doc, n):
    import pyrepseq as prs
    for o in concrete_objects(doc["obj"], n):
        for fn, want in ((prs.isvalidaa, doc["out"][0]), (prs.isvalidcdr3, doc["out"][1])):
            desc = f"{fn.__name__}({o!r})"
            ctx.case(dict(fn=fn.__name__, obj=repr(o)[:40], cls=doc["obj"]["class"]), nontrivial=doc["obj"]["class"] != "str" or len(doc["obj"]["s"]) > 0)
            rp = dict(kind="pred", obj=doc["obj"], n=n)
            try:
                got = fn(o)
            except Exception as e:      # noqa: BLE001
                empty = doc["obj"]["class"] != "number" and hasattr(o, "__len__") and len(o) == 0
                ctx.violation(f"{fn.__name__}/raised/{doc['obj']['class']}" + ("/empty" if empty else ""), f"{desc} raised {type(e).__name__}: {e}"[:300], rp)
                continue
            if not isinstance(got, (bool, np.bool_)):
                ctx.violation(f"{fn.__name__}/not_a_bool/{doc['obj']['class']}", f"{desc} returned {got!r} ({type(got).__name__})", rp)
            elif want in ("T", "F") and bool(got) != (want == "T"):
                ctx.violation(f"{fn.__name__}/wrong_answer/{doc['obj']['class']}", f"{desc} = {got} want {want == 'T'}", rp)


# ---------------------------------------------------------------- standardize_dataframe

def colname(c):
    return ("old_" + c["name"]) if c["old"] else c["name"]


def replay_std(ctx, doc, interner, opts, n):
    import pandas as pd
    import pyrepseq as prs
    cols = doc["cols"]
    names = [colname(c) for c in cols]
    mapper = {colname(c): c["name"] for c in cols if c["old"]} if doc["opts"]["mapper"] else None
    if mapper and mix(n + 5) % 2 == 0:
        # mappers whose target label is the current label of another column that the same mapper renames away (the renaming is
        # simultaneous): a swap of two mislabelled standard columns, or a chain that moves an extra column aside
        olds = [i for i, c in enumerate(cols) if c["old"]]
        extras = [i for i, c in enumerate(cols) if not c["old"] and c["name"] not in POOL]
        if len(olds) >= 2:
            a, b = olds[0], olds[1]
            names[a], names[b] = cols[b]["name"], cols[a]["name"]
            mapper = {names[i]: cols[i]["name"] for i in olds}
        elif olds and extras:
            o, e = olds[0], extras[0]
            names[e] = cols[o]["name"]
            mapper[names[e]] = cols[e]["name"]

    def text(c, cid):
        if cid == 0:
            return np.nan if n % 2 else None
        return POOL[c["name"]][cid - 1] if c["name"] in POOL else f"extra{cid}"
    data = {names[i]: [text(cols[i], row[i]) for row in doc["tab"]] for i in range(len(cols))}
    nrows = len(doc["tab"])
    index = [[f"r{i}" for i in range(nrows)][::-1], list(range(10, 10 + nrows)), None, ["donor1"] * nrows][(n // 3) % 4]      # incl. repeated labels
    df = pd.DataFrame(data, index=index, columns=names)
    before = df.copy(deep=True)
    rp = dict(kind="std", doc=doc, opts=opts, n=n)
    ctx.case(dict(fn="standardize_dataframe", cols=names, rows=doc["tab"], opts=doc["opts"], tt_opts=opts), nontrivial=len(doc["tab"]) > 0 and doc["opts"]["standardize"])
    if mix(n + 77) % 3 == 0:
        # history: the same table cleaned under OTHER options first (the result below may not depend on what the process did before)
        other = OPTION_SETS[mix(n + 7) % len(OPTION_SETS)]
        if other != opts:
            try:
                prs.standardize_dataframe(df.copy(deep=True), col_mapper=mapper, standardize=True, suppress_warnings=True, **other)
            except Exception:      # noqa: BLE001
                pass
            rp["after_call_with"] = other
    try:
        got = prs.standardize_dataframe(df, col_mapper=mapper, standardize=doc["opts"]["standardize"], suppress_warnings=True, **opts)
    except Exception as e:      # noqa: BLE001
        ctx.violation("standardize_dataframe/raised", f"standardize_dataframe(cols={names}, rows={doc['tab']}, {doc['opts']}, {opts}) raised {type(e).__name__}: {e}"[:400], rp)
        return
    want_cols = [colname(c) for c in doc["outcols"]]
    if list(got.columns) != want_cols:
        ctx.violation("standardize_dataframe/columns_wrong", f"columns {list(got.columns)} want {want_cols}", rp)
        return
    if list(got.index) != list(df.index) or len(got) != len(df):
        ctx.violation("standardize_dataframe/index_or_row_count_changed", f"index {list(got.index)} want {list(df.index)}", rp)
        return
    for r, row in enumerate(doc["out"]):
        for i, c in enumerate(doc["outcols"]):
            cell = got.iloc[r, i]
            if c["name"] in POOL and not c["old"]:
                gid = interner.id_of(c["name"], cell)
            else:
                orig = before.iloc[r, i]
                gid = row[i] if ((pd.isna(cell) and pd.isna(orig)) or cell == orig) else -1
            if gid != row[i]:
                what = "missing_changed" if doc["tab"][r][i] == 0 else "cell_wrong"
                ctx.violation(f"standardize_dataframe/{what}", f"standardize_dataframe(cols={names}, rows={doc['tab']}, {doc['opts']}, {opts}): cell [{r}][{want_cols[i]}] = {cell!r} "
                              f"(id {gid}) want id {row[i]} ({[k for k, v in interner.ids.get(c['name'], {}).items() if v == row[i]]})"[:500], rp)
                return
    if not (before.equals(df) and list(before.columns) == list(df.columns) and list(before.index) == list(df.index)):
        ctx.violation("standardize_dataframe/input_modified", f"standardize_dataframe modified the caller's table (cols={names})", rp)


# ---------------------------------------------------------------- multimerge

def replay_merge(ctx, doc, n):
    import pandas as pd
    import pyrepseq as prs
    o = doc["opts"]
    tables = [dict(map(tuple, t)) for t in doc["tab"]]
    keyname = ["k", "clonotype"][n % 2]
    keytxt = (lambda k: f"key{k}") if n % 3 else (lambda k: k * 11)
    dfs = []
    for i, t in enumerate(tables):
        vcol = "v" if o["suffixes"] else f"v{i}"
        ks = sorted(t)
        if n % 4 == 1:
            ks = ks[::-1]
        df = pd.DataFrame({vcol: [float(100 * (i + 1) + k) for k in ks]}, index=pd.Index([keytxt(k) for k in ks], name=keyname if not o["onindex"] else None))
        if not o["onindex"]:
            df = df.reset_index()
        dfs.append(df)
    befores = [d.copy(deep=True) for d in dfs]
    kw = {}
    if o["how"] != "outer":
        kw["how"] = o["how"]
    sfx = [chr(ord("a") + i) for i in range(len(dfs))] if o["suffixes"] else None
    on = "index" if o["onindex"] else keyname
    rp = dict(kind="merge", doc=doc, n=n)
    ctx.case(dict(fn="multimerge", tables=[sorted(t) for t in tables], opts=o), nontrivial=len({tuple(sorted(t)) for t in tables}) > 1)
    desc = f"multimerge({[sorted(t) for t in tables]} keys, on={on!r}, suffixes={sfx}, {kw})"
    try:
        got = prs.multimerge(dfs, on, suffixes=sfx, **kw)
    except Exception as e:      # noqa: BLE001
        ctx.violation(f"multimerge/raised:{type(e).__name__}/" + ("index" if o["onindex"] else "column") + ("/suffixes" if o["suffixes"] else "/no-suffixes"),
                      f"{desc} raised {type(e).__name__}: {e}"[:400], rp)
        return
    if not o["onindex"] and not o["suffixes"]:
        got = got.set_index(keyname)
    want = {keytxt(k): vals for k, vals in map(tuple, doc["out"])}
    cols = [f"v_{s}" for s in sfx] if sfx else [f"v{i}" for i in range(len(dfs))]
    if list(got.columns) != cols:
        ctx.violation("multimerge/columns_wrong", f"{desc}: columns {list(got.columns)} want {cols}", rp)
        return
    have = {k: [0 if pd.isna(got.loc[k, c]) else 7 for c in cols] for k in got.index}
    if have != {k: list(v) for k, v in want.items()} or not got.index.is_unique:
        ctx.violation(f"multimerge/not_the_join/{o['how']}", f"{desc}: rows {have} want {want}"[:500], rp)
        return
    for i, (k, v) in enumerate(want.items()):
        for j, c in enumerate(cols):
            if v[j] and abs(float(got.loc[k, c]) - (100 * (j + 1) + (int(str(k).replace('key', '')) if isinstance(k, str) else k // 11))) > 1e-9:
                ctx.violation("multimerge/value_wrong", f"{desc}: value at ({k}, {c}) = {got.loc[k, c]}", rp)
                return
    if not all(b.equals(d) for b, d in zip(befores, dfs)):
        ctx.violation("multimerge/input_modified", f"{desc} modified an input table", rp)


_STATE = {}


def _replay_item(ctx, i, item):
    n, oi, doc = item
    if doc["kind"] == "pred":
        replay_pred(ctx, doc, n)
    elif doc["kind"] == "std":
        interner, opts = _STATE[oi]
        replay_std(ctx, doc, interner, opts, n)
    else:
        replay_merge(ctx, doc, n)
    ctx.traces += 1


def run(ctx):
    import logging
    logging.disable(logging.CRITICAL)          # tidytcells reports failed standardisations through logging
    ctx.rule = ("Cleaning.tla: (pred) isvalidaa / isvalidcdr3 over object classes; (std) standardize_dataframe as Copy, Rename, one MapColumn per "
                "standard column, with the per-cell standardiser supplied as data (tidytcells called by the harness on each single cell); "
                "(merge) multimerge as a reduce of joins. TLC checks CellLocal, MissingStaysMissing, ExtraColumnsKept, InputUnchanged, MergeIsJoin "
                "over all small tables / key sets / strings. Every terminal behaviour is executed on the real functions (several concrete "
                "objects per class; index variants; four option sets; how / suffixes / index-or-column keys). Non-trivial = non-string object or "
                "non-empty table with standardisation / tables with different key sets.")
    ctx.assumptions = ["what tidytcells returns for one cell is trusted (per-cell oracle)", "multimerge tables have unique keys and distinct value-column names unless suffixes are given"]
    q = ctx.quick
    d = tempfile.mkdtemp(prefix="pvstd_")
    try:
        n = 0
        for oi, opts in enumerate(OPTION_SETS[: (3 if q else 7)]):
            interner = Interner(opts)
            stdfile = os.path.join(d, f"std{oi}.json")
            with open(stdfile, "w") as f:
                json.dump(interner.table, f)
            kinds = ["std"] + (["pred", "merge"] if oi == 0 else [])
            # quick: all four cell classes in one-row tables for the first option set, two-row tables over two classes afterwards
            res = run_cfg(ctx, f"cleaning{oi}", cfg_text(kinds, maxlen=3 if q else 4, maxrows=(1 if oi == 0 else 2) if q else 2,
                                                          cellids=((1, 2, 3, 4, 5, 6) if oi == 0 else (1, 4, 5)) if q else (1, 2, 3, 4, 5, 6),
                                                          colsets="CS1", maxtables=4, keyvals=(1, 2) if q else (1, 2, 3)), stdfile)
            if oi == 0 and not q:
                # all nine standard columns at once: one-row tables over two cell classes per column (3^9 tables)
                r9 = run_cfg(ctx, "cleaning9", cfg_text(["std"], maxrows=1, cellids=(1, 5), colsets="CS9"), stdfile)
                res.printed = list(res.printed) + [d_ for d_ in r9.printed if "kind" in d_ and len(d_.get("tab", [])) == 1]
            _STATE[oi] = (interner, opts)
            items = []
            for doc in ctx.sample([d for d in res.printed if "kind" in d], 60000):
                n += 1
                if doc["kind"] == "std" and n % (2 if q else 3):
                    continue
                if doc["kind"] == "merge" and len(doc["tab"]) == 4 and n % (3 if q else 2):
                    continue
                items.append((mix(n), oi, doc))
            ctx.parallel(items, _replay_item)
        ctx.exhaustive = True
        # negative controls: a standardiser applied to missing cells must be rejected by TLC; comparator self-test
        run_cfg(ctx, "NEG_missing", cfg_text(["std"], maxrows=1, colsets="CS1", mutations=["missing_not_guarded"], invs=("CellLocal", "MissingStaysMissing"), emit=False),
                stdfile, expect_violation=["CellLocal", "MissingStaysMissing"], workers=4)
    finally:
        shutil.rmtree(d, ignore_errors=True)


def replay(doc):
    from ..core import Ctx
    ctx = Ctx("C18", "quick", 0)
    ctx._known = []
    r = doc["replay"]
    if r["kind"] == "pred":
        replay_pred(ctx, dict(obj=r["obj"], out=["bool", "bool"]) if r["obj"]["class"] not in ("str", "missing", "number") else
                    dict(obj=r["obj"], out=["?", "?"]), r["n"])
        return 1 if any("raised" in v["key"] or "not_a_bool" in v["key"] for v in ctx.violations) else 0
    if r["kind"] == "merge":
        replay_merge(ctx, r["doc"], r["n"])
        return 1 if ctx.violations else 0
    if r["kind"] == "std":
        replay_std(ctx, r["doc"], Interner(r["opts"]), r["opts"], r["n"])
        return 1 if ctx.violations else 0
    return 2
