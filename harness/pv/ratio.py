"""Floats returned by the code -> exact rationals for TLC (which has integers only)."""
from __future__ import annotations

import math
from fractions import Fraction


def snap(x, maxden=10**6):
    """Returns ([num, den], "") or ([0, 1], special) with special in nan/inf/-inf/irrational.
    Distinct fractions with denominators <= maxden differ by >= 1/maxden^2, far above float noise for the sizes used,
    so snapping can never turn a wrong value into the right one."""
    try:
        x = float(x)
    except Exception:      # noqa: BLE001
        return [0, 1], "not_a_float"
    if math.isnan(x):
        return [0, 1], "nan"
    if math.isinf(x):
        return [0, 1], "inf" if x > 0 else "-inf"
    f = Fraction(x).limit_denominator(maxden)
    if abs(float(f) - x) > 1e-9 * max(1.0, abs(x)):
        return [0, 1], "irrational"
    return [f.numerator, f.denominator], ""


def eq(x, rat, tol=1e-9):
    """float x equals the rational [num, den] given by the spec"""
    try:
        x = float(x)
    except Exception:      # noqa: BLE001
        return False
    if math.isnan(x) or math.isinf(x):
        return False
    want = rat[0] / rat[1]
    return abs(x - want) <= tol * max(1.0, abs(want))
