"""Catalogue of public pyrepseq calls with representative arguments (property C20).

Every entry: name, abstract class of Session.tla, make_args() -> dict of fresh argument objects, call(args) -> result,
optional canon(result) for results that are figures.  Results are canonicalised (arrays -> nested lists with floats rounded,
frames -> column dict + index, sets / triplet lists -> sorted) before they are compared with the fresh-process result.
"""
from __future__ import annotations

import math
import os
import sys

import numpy as np

STANDINS = os.path.join(os.path.dirname(os.path.dirname(os.path.abspath(__file__))), "standins")

SEQS = ["CASSLGQAYEQYF", "CASSLGQAYEQF", "CASSLGAAYEQYF", "CASRLGQAYEQYF", "CASSLGQAYEQYF", "CAWSVGNTIYF", "CAWSVGNTIF"]
SEQS2 = ["CASSLGQAYEQYF", "CAWSVGNTIYF", "CASSF"]
COUNTS = [5, 3, 3, 1, 1, 1]


def _df():
    import pandas as pd
    return pd.DataFrame(dict(TRAV=["TRAV1-1*01", "TRAV12-2*01", "TRAV1-1*01", "TRAV21*01"], CDR3A=["CAVRDSNYQLIW", "CAVRDNYQLIW", "CAVNDYKLSF", "CAVRDSNYQLIW"],
                             TRBV=["TRBV2*01", "TRBV20-1*01", "TRBV2*01", "TRBV7-9*01"], CDR3B=["CASSLGQAYEQYF", "CASSLGQAYEQF", "CAWSVGNTIYF", "CASSLGQAYEQYF"],
                             group=["a", "b", "a", "b"], extra=[1, 2, 3, 4]), index=[f"c{i}" for i in range(4)])


def _dfg():
    import pandas as pd
    return pd.DataFrame(dict(g=["x", "y", "x", "y", "x", "z"], CDR3B=["CASSF", "CASSF", "CASSF", "CASSY", "CAWF", "CAWF"], v=["1", "1", "2", "2", "1", "1"]))


def _cm_df():
    import pandas as pd
    return pd.DataFrame(dict(cdr3a=["CAVRDSNYQLIW", "CAVRDNYQLIW", "CAVNDYKLSF", "CAVRDSNYQLIW", "CAVNDYKLF"], cdr3b=["CASSLGQAYEQYF", "CASSLGQAYEQF", "CAWSVGNTIYF", "CASSLGQAYEQYF", "CAWSVGNTIF"],
                             donor=["a", "b", "a", "b", "a"]))


def round_float(x):
    if isinstance(x, float) or isinstance(x, np.floating):
        x = float(x)
        if math.isnan(x):
            return "nan"
        if math.isinf(x):
            return "inf" if x > 0 else "-inf"
        return float(f"{x:.9g}")
    return x


def canon(x):
    import pandas as pd
    import scipy.sparse as sp
    if x is None or isinstance(x, (str, bool)):
        return x
    if isinstance(x, (np.bool_,)):
        return bool(x)
    if isinstance(x, (int, np.integer)):
        return int(x)
    if isinstance(x, (float, np.floating)):
        return round_float(x)
    if sp.issparse(x):
        return canon(x.toarray())
    if isinstance(x, np.ndarray):
        return canon(x.tolist())
    if isinstance(x, pd.DataFrame):
        return dict(columns=[str(c) for c in x.columns], index=[str(i) for i in x.index], values=canon(x.values.tolist()))
    if isinstance(x, pd.Series):
        return dict(index=[str(i) for i in x.index], values=canon(x.tolist()))
    if isinstance(x, (set, frozenset)):
        return sorted((canon(v) for v in x), key=repr)
    if isinstance(x, dict):
        return {str(k): canon(v) for k, v in x.items()}
    if isinstance(x, (list, tuple)):
        return [canon(v) for v in x]
    if hasattr(x, "__iter__"):
        return [canon(v) for v in x]
    return repr(type(x))


def triplets(x):
    return sorted(canon(x), key=repr)


def same(a, b):
    """deep equality of argument objects (before / after a call)"""
    import pandas as pd
    if type(a) is not type(b):
        return False
    if isinstance(a, float) and a != a:
        return b != b                       # NaN == NaN for the purpose of "unchanged"
    if isinstance(a, pd.DataFrame):
        return a.equals(b) and list(a.columns) == list(b.columns) and list(a.index) == list(b.index) and list(a.dtypes) == list(b.dtypes)
    if isinstance(a, pd.Series):
        return a.equals(b) and list(a.index) == list(b.index)
    if isinstance(a, np.ndarray):
        return a.shape == b.shape and a.dtype == b.dtype and bool(np.all((a == b) | ((a != a) & (b != b)))) if a.dtype.kind in "fc" else (a.shape == b.shape and a.dtype == b.dtype and bool(np.array_equal(a, b)))
    if isinstance(a, dict):
        return list(a.keys()) == list(b.keys()) and all(same(a[k], b[k]) for k in a)
    if isinstance(a, (list, tuple)):
        return len(a) == len(b) and all(same(x, y) for x, y in zip(a, b))
    if callable(a) or a.__class__.__module__.startswith(("pyrepseq", "matplotlib")):
        return True
    try:
        return bool(a == b)
    except Exception:      # noqa: BLE001
        return True


def snapshot(args):
    import copy
    out = {}
    for k, v in args.items():
        try:
            out[k] = copy.deepcopy(v)
        except Exception:      # noqa: BLE001
            out[k] = v
    return out


class Entry:
    def __init__(self, name, cls, make_args, call, canon_fn=None, slow=False):
        self.name, self.cls, self.make_args, self.call, self.canon_fn, self.slow = name, cls, make_args, call, canon_fn or canon, slow


def _clustermap_canon(res):
    cg, link, cluster = res
    import matplotlib.pyplot as plt
    out = dict(linkage=canon(link), cluster=canon(cluster), data2d=canon(np.asarray(cg.data2d)), order=canon(cg.dendrogram_row.reordered_ind),
               cbar_ticks=canon(cg.ax_cbar.get_xticks()), cbar_ticklabels=[t.get_text() for t in cg.ax_cbar.get_xticklabels()],
               xlabel=cg.ax_heatmap.get_xlabel())
    plt.close("all")
    return out


def _line_canon(res):
    import matplotlib.pyplot as plt
    out = [dict(x=canon(l.get_xdata()), y=canon(l.get_ydata())) for l in res]
    plt.close("all")
    return out


def _scatter_canon(ax):
    import matplotlib.pyplot as plt
    c = ax.collections[-1]
    out = dict(offsets=canon(np.asarray(c.get_offsets())), array=canon(np.asarray(c.get_array())))
    plt.close("all")
    return out


def _logo_canon(res):
    import matplotlib.pyplot as plt
    out = canon(res[1])
    plt.close("all")
    return out


_PERSIST = {}


def build():
    """The catalogue. pyrepseq is imported here (after the stand-in for pwseqdist is on the path)."""
    if STANDINS not in sys.path:
        sys.path.insert(0, STANDINS)
    import matplotlib
    matplotlib.use("Agg")
    import matplotlib.pyplot as plt
    import pandas as pd
    import pyrepseq as prs
    import pyrepseq.nn as nn
    from pyrepseq.metric import Levenshtein, WeightedLevenshtein, tcr_metric
    from matplotlib.colors import Normalize

    def cd(a, b):
        return 0.5 * sum(1 for x, y in zip(a, b) if x != y) + abs(len(a) - len(b))
    E = []
    add = lambda *a, **k: E.append(Entry(*a, **k))    # noqa: E731
    S = lambda: dict(seqs=list(SEQS))                  # noqa: E731
    # ---- search
    add("nearest_neighbor/list", "pure", S, lambda a: triplets(prs.nearest_neighbor(a["seqs"], max_edits=2)))
    add("nearest_neighbor/series_coo", "pure", lambda: dict(seqs=pd.Series(SEQS, index=range(3, 3 + len(SEQS)))), lambda a: prs.nearest_neighbor(a["seqs"], max_edits=1, output_type="coo_matrix"))
    add("nearest_neighbor/hamming", "pure", S, lambda a: triplets(prs.nearest_neighbor(a["seqs"], max_edits=2, custom_distance="hamming")))
    add("symdel/two", "pure", lambda: dict(seqs=list(SEQS), seqs2=np.array(SEQS2)), lambda a: triplets(prs.symdel(a["seqs"], max_edits=2, seqs2=a["seqs2"])))
    add("symdel/custom", "pure", S, lambda a: triplets(prs.symdel(a["seqs"], max_edits=2, custom_distance=cd, max_custom_distance=1.5)))
    add("SymdelDB/lookup", "pure", lambda: dict(seqs=list(SEQS), q=list(SEQS2)), lambda a: triplets(nn.SymdelDB(a["seqs"], 1).lookup(a["q"])))
    add("LookupDB/lookup", "pure", lambda: dict(seqs=list(SEQS), q=list(SEQS2)), lambda a: triplets(nn.LookupDB(a["seqs"]).lookup(a["q"], max_edits=1)))
    add("hash_based", "pure", lambda: dict(seqs=np.array(SEQS)), lambda a: triplets(prs.hash_based(a["seqs"], max_edits=1)))
    add("hash_based/ndarray_out", "pure", S, lambda a: prs.hash_based(a["seqs"], max_edits=1, output_type="ndarray"))
    add("kdtree", "kd", S, lambda a: triplets(prs.kdtree(a["seqs"], max_edits=2)))
    add("kdtree/hamming", "kd", S, lambda a: triplets(prs.kdtree(a["seqs"], max_edits=1, custom_distance="hamming", compression=2)))
    add("kdtree/custom", "kd", S, lambda a: triplets(prs.kdtree(a["seqs"], max_edits=2, custom_distance=cd, max_custom_distance=2.0)))
    add("kdtree/max_returns", "kd", S, lambda a: len(prs.kdtree(a["seqs"], max_edits=2, max_returns=1)))
    add("kdtree/n_cpu2", "kd", S, lambda a: triplets(prs.kdtree(a["seqs"], max_edits=1, n_cpu=2)), slow=True)
    add("nearest_neighbor_tcrdist", "tcrdist", lambda: dict(df=_df()), lambda a: triplets(prs.nearest_neighbor_tcrdist(a["df"], chain="beta", max_edits=2, max_tcrdist=60)))
    add("nearest_neighbor_tcrdist/kwargs", "tcrdist", lambda: dict(df=_df(), kw=dict(ntrim=2, ctrim=1)),
        lambda a: triplets(prs.nearest_neighbor_tcrdist(a["df"], chain="both", max_edits=2, max_tcrdist=200, tcrdist_kwargs=a["kw"])))
    # ---- distances
    add("pdist", "pure", S, lambda a: prs.pdist(a["seqs"]))
    add("cdist", "pure", lambda: dict(a=list(SEQS), b=tuple(SEQS2)), lambda a: prs.cdist(a["a"], a["b"]))
    add("pcDelta", "pure", S, lambda a: prs.pcDelta(a["seqs"], bins=np.arange(0, 8)))
    add("pcDelta/two_pseudo", "pure", lambda: dict(a=list(SEQS), b=list(SEQS2), bins=[0, 1, 2, 5, 20]), lambda a: prs.pcDelta(a["a"], a["b"], bins=a["bins"], pseudocount=0.5))
    add("pcDelta/table", "pure", lambda: dict(df=_df()), lambda a: prs.pcDelta(a["df"], bins=np.arange(0, 12), normalize=False))
    add("pcDelta/zero", "pure", S, lambda a: prs.pcDelta(a["seqs"], bins=0))
    add("pcDelta/maxseqs", "random", S, lambda a: prs.pcDelta(a["seqs"], bins=np.arange(0, 8), maxseqs=4))
    add("pcDelta_grouped", "pure", lambda: dict(df=_dfg()), lambda a: prs.pcDelta_grouped(a["df"], "g", "CDR3B", bins=[0, 1, 2, 3]))
    add("pcDelta_grouped_cross", "pure", lambda: dict(df=_dfg()), lambda a: prs.pcDelta_grouped_cross(a["df"], "g", "CDR3B", condensed=True, bins=[0, 1, 2, 3]))
    add("load_pcDelta_background", "pure", dict, lambda a: [prs.load_pcDelta_background()[0], prs.load_pcDelta_background()[1]])
    add("downsample", "random", S, lambda a: sorted(prs.downsample(a["seqs"], 3)))
    add("downsample/table", "random", lambda: dict(df=_df()), lambda a: prs.downsample(a["df"], 2))
    add("levenshtein_neighbors", "pure", lambda: dict(x="CAAF"), lambda a: list(prs.levenshtein_neighbors(a["x"])))
    add("hamming_neighbors", "pure", lambda: dict(x="CAAF", pos=[1, 2]), lambda a: list(prs.hamming_neighbors(a["x"], variable_positions=a["pos"])))
    add("next_nearest_neighbors", "pure", lambda: dict(x="CAF"), lambda a: prs.next_nearest_neighbors(a["x"], lambda y: prs.hamming_neighbors(y, "ACF"), maxdistance=2))
    add("find_neighbor_pairs", "pure", S, lambda a: sorted(prs.find_neighbor_pairs(a["seqs"])))
    add("find_neighbor_pairs/set", "pure", lambda: dict(seqs=set(SEQS)), lambda a: sorted(tuple(sorted(p)) for p in prs.find_neighbor_pairs(a["seqs"])))
    add("calculate_neighbor_numbers/set_reference", "pure", lambda: dict(seqs=list(SEQS), ref=set(SEQS)), lambda a: prs.calculate_neighbor_numbers(a["seqs"], reference=a["ref"]))
    add("find_neighbor_pairs_index", "pure", lambda: dict(seqs=sorted(set(SEQS))), lambda a: sorted(prs.find_neighbor_pairs_index(a["seqs"])))
    add("calculate_neighbor_numbers", "pure", S, lambda a: prs.calculate_neighbor_numbers(a["seqs"]))
    add("isdist1", "pure", lambda: dict(x="CASSLGQAYEQYF", ref=set(SEQS[1:])), lambda a: prs.isdist1(a["x"], a["ref"]))
    add("nndist_hamming", "pure", lambda: dict(x="CASSLGQAYEQYW", ref=set(SEQS)), lambda a: prs.nndist_hamming(a["x"], a["ref"], maxdist=3))
    add("hierarchical_clustering", "hc_default", S, lambda a: prs.hierarchical_clustering(a["seqs"]))
    add("hierarchical_clustering/table", "hc_default", lambda: dict(df=_df()), lambda a: prs.hierarchical_clustering(a["df"]))
    add("hierarchical_clustering/custom", "hc_custom", lambda: dict(seqs=list(SEQS), lk=dict(method="single"), ck=dict(t=2, criterion="distance")),
        lambda a: prs.hierarchical_clustering(a["seqs"], linkage_kws=a["lk"], cluster_kws=a["ck"]))
    # ---- stats
    add("powerlaw_sample", "random", dict, lambda a: prs.powerlaw_sample(size=20, xmin=2, alpha=2.5))
    add("subsample", "random", lambda: dict(c=list(COUNTS)), lambda a: prs.subsample(a["c"], 6))
    for m in ("simple", "continuitycorrection", "exact"):
        add(f"powerlaw_mle_alpha/{m}", "pure", lambda: dict(c=np.array([1, 1, 2, 3, 5, 8, 13, 1, 1, 2])), lambda a, m=m: prs.powerlaw_mle_alpha(a["c"], cmin=1, method=m))
    add("powerlaw_mle_alpha/exact_bounds", "pure", lambda: dict(c=np.array([1, 1, 2, 3, 5, 8, 13, 1, 1, 2]), b=[2.0, 2.5]),
        lambda a: prs.powerlaw_mle_alpha(a["c"], cmin=1, method="exact", bounds=a["b"]))
    add("pc", "pure", S, lambda a: prs.pc(a["seqs"]))
    add("pc/two", "pure", lambda: dict(a=list(SEQS), b=list(SEQS2)), lambda a: prs.pc(a["a"], a["b"]))
    add("pc/table", "pure", lambda: dict(df=_dfg()), lambda a: prs.pc(a["df"]))
    add("pc_n", "pure", lambda: dict(c=list(COUNTS)), lambda a: prs.pc_n(a["c"]))
    add("pc_joint", "pure", lambda: dict(df=_dfg(), on=["CDR3B", "v"]), lambda a: prs.pc_joint(a["df"], a["on"]))
    add("pc_grouped_cross", "pure", lambda: dict(df=_dfg()), lambda a: prs.pc_grouped_cross(a["df"], "g", "CDR3B"))
    add("pc_conditional", "pure", lambda: dict(df=_dfg(), w=[1.0, 2.0]), lambda a: prs.pc_conditional(a["df"], ["g"], "CDR3B", group_weights=a["w"]))
    add("varpc_n", "pure", lambda: dict(c=np.array(COUNTS)), lambda a: prs.varpc_n(a["c"]))
    add("stdpc_n", "pure", lambda: dict(c=np.array(COUNTS)), lambda a: prs.stdpc_n(a["c"]))
    add("stdpc", "pure", S, lambda a: prs.stdpc(a["seqs"]))
    add("stdpc_joint", "pure", lambda: dict(df=_dfg(), on=["CDR3B", "v"]), lambda a: prs.stdpc_joint(a["df"], a["on"]))
    add("chao1", "pure", lambda: dict(c=[4, 2, 1]), lambda a: prs.chao1(a["c"]))
    add("chao2", "pure", lambda: dict(c=np.array([4, 2, 1])), lambda a: prs.chao2(a["c"], 5))
    add("var_chao1", "pure", lambda: dict(c=[4, 2, 1]), lambda a: prs.var_chao1(a["c"]))
    add("var_chao2", "pure", lambda: dict(c=[4, 2, 1]), lambda a: prs.var_chao2(a["c"], 5))
    add("jaccard_index", "pure", lambda: dict(a=list(SEQS), b=pd.Series(SEQS2 + [None])), lambda a: prs.jaccard_index(a["a"], a["b"]))
    add("overlap", "pure", lambda: dict(a=list(SEQS) + [np.nan], b=set(SEQS2)), lambda a: prs.overlap(a["a"], a["b"]))
    add("overlap_coefficient", "pure", lambda: dict(a=np.array(SEQS, dtype=object), b=list(SEQS2)), lambda a: prs.overlap_coefficient(a["a"], a["b"]))
    add("renyi2_entropy", "pure", lambda: dict(df=_dfg()), lambda a: prs.renyi2_entropy(a["df"], "CDR3B"))
    add("renyi2_entropy/by", "pure", lambda: dict(df=_dfg()), lambda a: prs.renyi2_entropy(a["df"], ["CDR3B", "v"], by="g", base=10.0))
    add("stdrenyi2_entropy", "pure", lambda: dict(df=_dfg()), lambda a: prs.stdrenyi2_entropy(a["df"], "CDR3B"))
    add("graph_clustering/cc", "pure", lambda: dict(t=[(0, 1, 1), (1, 0, 1), (2, 3, 0), (3, 2, 0)], nodes=list("abcde")), lambda a: prs.graph_clustering(a["t"], a["nodes"]))
    add("graph_clustering/multilevel", "random", lambda: dict(t=[(0, 1, 1), (1, 0, 1), (2, 3, 0), (3, 2, 0), (1, 2, 1), (2, 1, 1)], nodes=list("abcde")),
        lambda a: prs.graph_clustering(a["t"], a["nodes"], clustering="multilevel"))
    # ---- metrics
    add("Levenshtein/cdist", "pure", lambda: dict(a=list(SEQS), b=list(SEQS2)), lambda a: Levenshtein().calc_cdist_matrix(a["a"], a["b"]))
    add("WeightedLevenshtein/pdist", "pure", S, lambda a: WeightedLevenshtein(1, 2, 3).calc_pdist_vector(a["seqs"]))
    for cname in ("AlphaCdr3Levenshtein", "BetaCdr3Levenshtein", "Cdr3Levenshtein", "AlphaCdrLevenshtein", "BetaCdrLevenshtein", "CdrLevenshtein"):
        add(f"{cname}/cdist", "pure", lambda: dict(a=_df(), b=_df().iloc[:2]), lambda a, cname=cname: getattr(tcr_metric, cname)().calc_cdist_matrix(a["a"], a["b"]))
    add("CdrLevenshtein/pdist", "pure", lambda: dict(a=_df()), lambda a: tcr_metric.CdrLevenshtein(cdr1_weight=2, alpha_weight=3).calc_pdist_vector(a["a"]))
    # ---- io / util
    add("standardize_dataframe", "pure", lambda: dict(df=pd.DataFrame(dict(TRBV=["TCRBV28S1*01", "foo", None], CDR3B=["ASSLGQ", "CASSF", None], n=[1, 2, 3]))),
        lambda a: prs.standardize_dataframe(a["df"], suppress_warnings=True))
    add("standardize_dataframe/mapper", "pure", lambda: dict(df=pd.DataFrame(dict(v=["TRBV7-9*01"], c=["CASSF"])), m=dict(v="TRBV", c="CDR3B")),
        lambda a: prs.standardize_dataframe(a["df"], col_mapper=a["m"], standardize=False))
    add("standardize_dataframe/nonfunctional", "pure", lambda: dict(df=pd.DataFrame(dict(TRBV=["TRBV1*01", "TRBV7-9*01"], TRAJ=["TRAJ51*01", None]))),
        lambda a: prs.standardize_dataframe(a["df"], tcr_enforce_functional=False, suppress_warnings=True))
    add("standardize_dataframe/functional_default", "pure", lambda: dict(df=pd.DataFrame(dict(TRBV=["TRBV1*01", "TRBV7-9*01"], TRAJ=["TRAJ51*01", None]))),
        lambda a: prs.standardize_dataframe(a["df"], suppress_warnings=True))
    add("isvalidaa", "pure", lambda: dict(x="CASSF"), lambda a: [prs.isvalidaa(a["x"]), prs.isvalidaa(None), prs.isvalidaa("CAS1")])
    add("isvalidcdr3", "pure", lambda: dict(x="CASSF"), lambda a: [prs.isvalidcdr3(a["x"]), prs.isvalidcdr3(np.nan), prs.isvalidcdr3("ASSF")])
    add("multimerge", "pure", lambda: dict(dfs=[pd.DataFrame(dict(k=["a", "b"], x=[1, 2])), pd.DataFrame(dict(k=["b", "c"], y=[3, 4]))]), lambda a: prs.multimerge(a["dfs"], "k"))
    add("multimerge/suffixes", "pure", lambda: dict(dfs=[pd.DataFrame(dict(k=["a", "b"], x=[1, 2])), pd.DataFrame(dict(k=["b", "c"], x=[3, 4]))], s=["l", "r"]),
        lambda a: prs.multimerge(a["dfs"], "k", suffixes=a["s"]))
    add("multimerge/index_suffixes", "pure", lambda: dict(dfs=[pd.DataFrame(dict(x=[1, 2]), index=["a", "b"]), pd.DataFrame(dict(x=[3, 4]), index=["b", "c"])], s=["l", "r"]),
        lambda a: prs.multimerge(a["dfs"], "index", suffixes=a["s"]))
    add("seqs_to_regex", "pure", lambda: dict(seqs=["CAF", "CDF", "C-W"]), lambda a: prs.seqs_to_regex(a["seqs"], align=False))
    add("seqs_to_consensus", "pure", lambda: dict(seqs=["CAF", "CDF", "CAW"]), lambda a: prs.seqs_to_consensus(a["seqs"], align=False))
    # ---- plotting
    add("rankfrequency", "pure", lambda: dict(c=np.array([5.0, 1.0, np.nan, 3.0, 1.0])), lambda a: prs.plotting.rankfrequency(a["c"], ax=plt.subplots()[1]), canon_fn=_line_canon)
    add("labels_to_colors_hls", "random", lambda: dict(l=[1, 2, 2, 3, 3, 3]), lambda a: prs.plotting.labels_to_colors_hls(a["l"], min_count=2))
    add("labels_to_colors_hls/palette", "random", lambda: dict(l=list("aabbc"), p=dict(l=0.4, s=0.7)), lambda a: prs.plotting.labels_to_colors_hls(a["l"], palette_kws=a["p"]))
    add("labels_to_colors_tableau", "random", lambda: dict(l=np.array(list("aabbc"))), lambda a: prs.plotting.labels_to_colors_tableau(a["l"]))
    add("seqlogos", "pure", lambda: dict(seqs=["CAF", "CDF", "CAW"]), lambda a: prs.plotting.seqlogos(a["seqs"], ax=plt.subplots()[1]), canon_fn=_logo_canon, slow=True)
    add("density_scatter", "pure", lambda: dict(x=[1, 1, 2, 2, 2], y=[0, 0, 1, 1, 3]), lambda a: prs.plotting.density_scatter(a["x"], a["y"], ax=plt.subplots()[1], discrete=True), canon_fn=_scatter_canon)
    add("similarity_clustermap", "cm_default", lambda: dict(df=_cm_df()), lambda a: prs.plotting.similarity_clustermap(a["df"]), canon_fn=_clustermap_canon, slow=True)
    add("similarity_clustermap/bounds", "cm_default", lambda: dict(df=_cm_df(), b=np.arange(0, 10, 2)), lambda a: prs.plotting.similarity_clustermap(a["df"], bounds=a["b"]),
        canon_fn=_clustermap_canon, slow=True)
    add("similarity_clustermap/single_meta", "cm_default", lambda: dict(df=_cm_df()),
        lambda a: prs.plotting.similarity_clustermap(a["df"], alpha_column=None, beta_column="cdr3b", meta_columns=["donor"]), canon_fn=_clustermap_canon, slow=True)
    add("similarity_clustermap/norm", "cm_norm", lambda: dict(df=_cm_df(), norm=Normalize(0, 10)), lambda a: prs.plotting.similarity_clustermap(a["df"], norm=a["norm"]),
        canon_fn=_clustermap_canon, slow=True)
    add("density_scatter/continuous_cbar", "pure", lambda: dict(x=[0.1, 0.4, 0.35, 0.8, 0.82, 0.5], y=[1.0, 0.2, 0.25, 0.9, 0.95, 0.5]),
        lambda a: prs.plotting.density_scatter(a["x"], a["y"], ax=plt.subplots()[1], bins=5, cbar=True), canon_fn=_scatter_canon)
    add("label_axes", "pure", lambda: dict(labels=["i", "ii"], kw=dict(fontsize=7)),
        lambda a: _label_axes_call(a), canon_fn=lambda r: r)
    add("label_axes/default", "pure", dict, lambda a: _label_axes_call(dict(labels=None, kw={})), canon_fn=lambda r: r)
    add("seqlogos_vj", "pure", lambda: dict(df=pd.DataFrame(dict(c=["CAF", "CDF", "CAW"], v=["TRBV1", "TRBV2", "TRBV1"], j=["TRBJ1", "TRBJ1", "TRBJ2"]))),
        lambda a: len(prs.plotting.seqlogos_vj(a["df"], "c", "v", "j")), slow=True)
    add("clustermap_split", "pure", lambda: dict(lo=pd.DataFrame(np.arange(16.0).reshape(4, 4)), up=pd.DataFrame(np.arange(16.0).reshape(4, 4)[::-1]), ck=dict(label="d")),
        lambda a: np.asarray(prs.plotting.clustermap_split(a["lo"], a["up"], cbar_kws=a["ck"], figsize=(3, 3)).data2d), slow=True)
    add("ensure_numpy", "pure", lambda: dict(l=list(SEQS), s=pd.Series(SEQS, index=range(3, 3 + len(SEQS))), a=np.array(SEQS)),
        lambda a: [prs.util.ensure_numpy(a["l"]), prs.util.ensure_numpy(a["s"]), prs.util.ensure_numpy(a["a"])])
    add("convert_tuple", "pure", lambda: dict(t=(list(SEQS), list(SEQS[::-1])), l=list(SEQS)),
        lambda a: [prs.util.convert_tuple_to_dataframe_if_necessary(a["t"]), prs.util.convert_tuple_to_dataframe_if_necessary(a["l"])])
    add("default_metric_and_format", "pure", lambda: dict(df=_df(), l=list(SEQS)),
        lambda a: [type(prs.distance.get_default_metric_for_input_data(a["df"])).__name__, type(prs.distance.get_default_metric_for_input_data(a["l"])).__name__,
                   type(prs.distance.get_default_metric_for_input_data(a["df"][["CDR3B"]])).__name__,
                   tcr_metric.tcr_metric.is_in_standard_format(a["df"]), tcr_metric.tcr_metric.is_in_standard_format(a["l"])])
    add("metric_names", "pure", dict, lambda a: [Levenshtein().name, WeightedLevenshtein(1, 2, 3).name, tcr_metric.CdrLevenshtein().name, tcr_metric.BetaCdr3Levenshtein().name,
                                                Levenshtein().distance_bins.tolist() if hasattr(Levenshtein(), "distance_bins") else None])
    add("next_nearest_neighbors/3", "pure", lambda: dict(x="AB"), lambda a: prs.next_nearest_neighbors(a["x"], lambda y: prs.hamming_neighbors(y, alphabet="AB"), maxdistance=3))
    add("pc_joint/gap_token", "pure", lambda: dict(df=_dfg(), d2=_dfg().iloc[::-1]), lambda a: prs.pc_joint(a["df"], ["CDR3B", "v"], a["d2"], gap_token="|"))
    add("similarity_clustermap/short_mapper_list", "cm_default", lambda: dict(df=_cm_df(), m=[prs.plotting.labels_to_colors_tableau], c=["donor"]),
        lambda a: prs.plotting.similarity_clustermap(a["df"], meta_columns=a["c"], meta_to_colors=a["m"]), canon_fn=_clustermap_canon, slow=True)
    # ---- float64 arrays handed over by the caller: np.asarray(x, dtype=float) does not copy them, so in-place arithmetic inside a
    #      function would write into the caller's array
    add("pc_conditional/weights_f64", "pure", lambda: dict(df=_dfg(), w=np.array([0.5, 2.0])), lambda a: prs.pc_conditional(a["df"], "g", "CDR3B", group_weights=a["w"]))
    add("varpc_n/f64", "pure", lambda: dict(c=np.array([4.0, 2.0, 2.0, 1.0])), lambda a: [prs.varpc_n(a["c"]), prs.stdpc_n(a["c"]), prs.pc_n(a["c"])])
    add("chao/f64", "pure", lambda: dict(c=np.array([4.0, 2.0, 1.0])), lambda a: [prs.chao1(a["c"]), prs.var_chao1(a["c"]), prs.chao2(a["c"], 3), prs.var_chao2(a["c"], 3)])
    add("subsample/f64_counts", "random", lambda: dict(c=np.array([3, 0, 2, 5])), lambda a: prs.subsample(a["c"], 4))
    # ---- randomised calls on inputs far beyond the small ones above (bulk code paths, size thresholds): still a function of the seed
    add("subsample/two_million_items", "random", lambda: dict(c=np.arange(1, 2001)), lambda a: prs.subsample(a["c"], 40), slow=True)
    add("downsample/large", "random", lambda: dict(s=[f"CAS{i}F" for i in range(30000)]), lambda a: list(prs.downsample(a["s"], 6)), slow=True)
    add("powerlaw_sample/large", "random", dict, lambda a: (lambda x: [len(x), float(np.sum(x[:1000])), [float(v) for v in x[-3:]]])(prs.powerlaw_sample(size=150000, xmin=1, alpha=2.2)), slow=True)
    add("pcDelta/maxseqs_large", "random", lambda: dict(s=[("CASS" + "ACDEFGHIKL"[i % 10] + "ACDEFGHIKL"[(i // 10) % 10] + "F") for i in range(1500)]),
        lambda a: prs.pcDelta(a["s"], bins=np.arange(0, 5), maxseqs=12), slow=True)
    add("powerlaw_mle_alpha/f64", "pure", lambda: dict(c=np.array([1.0, 2.0, 2.0, 5.0, 9.0])), lambda a: [prs.powerlaw_mle_alpha(a["c"], method="simple"), prs.powerlaw_mle_alpha(a["c"], cmin=2.0, method="continuitycorrection")])
    add("pcDelta/ndarray_bins", "pure", lambda: dict(s=np.array(SEQS, dtype=object), b=np.array([0.0, 1.0, 2.0, 5.0])), lambda a: prs.pcDelta(a["s"], bins=a["b"], pseudocount=0.5))
    # ---- long-lived metric objects (created once per interpreter, before any call): a metric keeps ITS weights whatever other
    #      metric objects are constructed later by other calls (pcDelta / hierarchical_clustering build default metrics internally)
    if not _PERSIST:
        _PERSIST.update(cdr3=tcr_metric.Cdr3Levenshtein(alpha_weight=5, beta_weight=2, insertion_weight=2), cdr=tcr_metric.CdrLevenshtein(cdr1_weight=3, cdr2_weight=2),
                        wlev=WeightedLevenshtein(1, 2, 3), beta=tcr_metric.BetaCdr3Levenshtein(deletion_weight=4))
    add("persistent/Cdr3Levenshtein_weighted", "pure", lambda: dict(a=_df(), b=_df().iloc[:2]), lambda a: _PERSIST["cdr3"].calc_cdist_matrix(a["a"], a["b"]))
    add("persistent/CdrLevenshtein_weighted", "pure", lambda: dict(a=_df()), lambda a: _PERSIST["cdr"].calc_pdist_vector(a["a"]))
    add("persistent/WeightedLevenshtein", "pure", lambda: dict(a=list(SEQS), b=list(SEQS2)), lambda a: _PERSIST["wlev"].calc_cdist_matrix(a["a"], a["b"]))
    add("persistent/BetaCdr3Levenshtein_weighted", "pure", lambda: dict(a=_df()), lambda a: _PERSIST["beta"].calc_pdist_vector(a["a"]))
    # ---- one long-lived array searched again and again with other options and several workers (a repertoire kept in memory): every
    #      call answers with ITS options, whatever worker pools or parameter blocks earlier calls on the same object left behind
    _PERSIST.setdefault("arr", np.array(SEQS + ["CAWSVGNTF", "CASSLGAYEQYF"], dtype=object))
    add("persistent/kdtree_same_array/k1", "kd", dict, lambda a: triplets(prs.kdtree(_PERSIST["arr"], max_edits=1, n_cpu=2)), slow=True)
    add("persistent/kdtree_same_array/k2", "kd", dict, lambda a: triplets(prs.kdtree(_PERSIST["arr"], max_edits=2, n_cpu=2)), slow=True)
    add("persistent/kdtree_same_array/k2_one_return", "kd", dict, lambda a: len(prs.kdtree(_PERSIST["arr"], max_edits=2, max_returns=1, n_cpu=2)), slow=True)
    # ---- long-lived database objects (a reference repertoire indexed once, queried all day): the distance mode, the custom
    #      distance and both radii are arguments of EACH lookup; an answer never depends on what the object was asked before.
    #      Entries run in this order at the end of every session: Hamming, Levenshtein, Hamming again; radius 2 before radius 1.
    _PERSIST.setdefault("ldb", nn.LookupDB(list(SEQS)))
    _PERSIST.setdefault("sdb", nn.SymdelDB(list(SEQS), 2))
    _cdq = lambda x, y: 0.5 * abs(len(x) - len(y)) + 0.25 * sum(a != b for a, b in zip(x, y))
    QDB = ["CASSLGQAYEQYF", "CAWSVGNTIYF", "CASSF", "CASSLGQAYEQYF"]
    for _nm, _db in (("LookupDB", "ldb"), ("SymdelDB", "sdb")):
        _k = (lambda k, _nm=_nm: dict(max_edits=k) if _nm == "LookupDB" else {})
        add(f"persistent/{_nm}/hamming", "pure", lambda: dict(q=list(QDB)), lambda a, _db=_db, _k=_k: triplets(_PERSIST[_db].lookup(a["q"], custom_distance="hamming", **_k(1))))
        add(f"persistent/{_nm}/levenshtein", "pure", lambda: dict(q=list(QDB)), lambda a, _db=_db, _k=_k: triplets(_PERSIST[_db].lookup(a["q"], **_k(1))))
        add(f"persistent/{_nm}/hamming_again", "pure", lambda: dict(q=list(QDB)), lambda a, _db=_db, _k=_k: triplets(_PERSIST[_db].lookup(a["q"], custom_distance="hamming", **_k(1))))
        add(f"persistent/{_nm}/custom_wide", "pure", lambda: dict(q=list(QDB)), lambda a, _db=_db, _k=_k: triplets(_PERSIST[_db].lookup(a["q"], custom_distance=_cdq, **_k(2))))
        add(f"persistent/{_nm}/custom_narrow", "pure", lambda: dict(q=list(QDB)), lambda a, _db=_db, _k=_k: triplets(_PERSIST[_db].lookup(a["q"], custom_distance=_cdq, max_custom_distance=0.5, **_k(1))))
        add(f"persistent/{_nm}/levenshtein_dense", "pure", lambda: dict(q=list(QDB)), lambda a, _db=_db, _k=_k: _PERSIST[_db].lookup(a["q"], output_type="ndarray", **_k(1)))
    add("pcDelta/table_default_metric", "pure", lambda: dict(df=_df()), lambda a: prs.pcDelta(a["df"], bins=[0, 1, 2, 5, 30]))
    # ---- sentinels: values that exist only under the default IEEE / NumPy error handling (inf, nan); a call that leaves the
    #      process-wide floating-point error state or similar settings changed shows here
    add("sentinel/renyi2_all_distinct", "pure", lambda: dict(df=pd.DataFrame(dict(CDR3B=["CASSF", "CASSY", "CAWF"]))), lambda a: prs.renyi2_entropy(a["df"], "CDR3B"))
    add("sentinel/pc_single", "pure", lambda: dict(x=["CASSF"]), lambda a: prs.pc(a["x"]))
    add("sentinel/powerlaw_simple_singletons", "pure", lambda: dict(c=[1, 1, 1]), lambda a: prs.powerlaw_mle_alpha(a["c"], method="simple"))
    add("sentinel/pcDelta_no_pairs_in_bins", "pure", lambda: dict(s=["CASSF", "CAW"]), lambda a: prs.pcDelta(a["s"], bins=[10, 11]))
    # ---- calls that raise
    add("raise/powerlaw_exact_reversed_bounds", "raising", lambda: dict(c=[1, 2, 3, 7]), lambda a: prs.powerlaw_mle_alpha(a["c"], bounds=[4.5, 1.5]))
    add("raise/powerlaw_exact_zero_counts", "raising", lambda: dict(c=[0, 1, 2, 0, 5]), lambda a: prs.powerlaw_mle_alpha(a["c"], cmin=0))
    add("raise/powerlaw_unknown_option", "raising", lambda: dict(c=[1, 2, 3, 7]), lambda a: prs.powerlaw_mle_alpha(a["c"], no_such_option=1))
    add("raise/pcDelta_bad_metric", "raising", S, lambda a: prs.pcDelta(a["seqs"], metric="levenshtein"))
    add("raise/hierarchical_bad_method", "raising", S, lambda a: prs.hierarchical_clustering(a["seqs"], linkage_kws=dict(method="no_such_method")))
    add("raise/nearest_neighbor_empty", "raising", lambda: dict(seqs=[]), lambda a: prs.nearest_neighbor(a["seqs"]))
    add("raise/kdtree_ncpu0", "raising", S, lambda a: prs.kdtree(a["seqs"], n_cpu=0))
    add("raise/standardize_no_df", "raising", dict, lambda a: prs.standardize_dataframe())
    add("raise/tcr_metric_list", "raising", S, lambda a: tcr_metric.Cdr3Levenshtein().calc_pdist_vector(a["seqs"]))
    add("raise/mle_method", "raising", lambda: dict(c=[1, 2, 3]), lambda a: prs.powerlaw_mle_alpha(a["c"], method="bad"))
    add("raise/renyi_base", "raising", lambda: dict(df=_dfg()), lambda a: prs.renyi2_entropy(a["df"], "CDR3B", base=-1))
    return E


def _label_axes_call(a):
    import matplotlib.pyplot as plt
    import pyrepseq as prs
    fig, axs = plt.subplots(1, 3)
    kw = dict(a["kw"])
    if a["labels"] is None:
        prs.plotting.label_axes(fig)
    else:
        prs.plotting.label_axes(list(axs), labels=a["labels"], labelstyle="(%s)", **kw)
    out = [[t.get_text() for t in ax.texts] for ax in axs]
    plt.close(fig)
    return out


def run_entry(entry, seed=None):
    """Execute one catalogue call: (canonical outcome, args untouched?)"""
    import random
    args = entry.make_args()
    before = snapshot(args)
    if seed is not None:
        np.random.seed(seed)
        random.seed(seed)
    try:
        res = entry.call(args)
        outcome = dict(ok=True, value=entry.canon_fn(res))
    except Exception as e:      # noqa: BLE001
        outcome = dict(ok=False, value=type(e).__name__)
    untouched = all(same(before[k], args[k]) for k in before)
    return outcome, untouched


def process_settings():
    """process-wide settings outside pyrepseq that its calls could leave changed (observed as drift; what counts is whether a
    later result differs from the fresh-process result)"""
    import logging
    import warnings
    import matplotlib
    po = np.get_printoptions()
    return dict(np_err=dict(np.geterr()), np_print=[po.get("precision"), po.get("threshold")], backend=str(matplotlib.get_backend()).lower(),
                logging_disabled=int(logging.root.manager.disable))


def default_state():
    """projection of the dict-valued default arguments and of the module-level parameter block"""
    import copy
    import pyrepseq as prs
    import pyrepseq.nn as nn
    fns = dict(similarity_clustermap=prs.plotting.similarity_clustermap, labels_to_colors_hls=prs.plotting.labels_to_colors_hls,
               hierarchical_clustering=prs.hierarchical_clustering, nearest_neighbor_tcrdist=prs.nearest_neighbor_tcrdist)
    out = {}
    for name, fn in fns.items():
        ds = list(fn.__defaults__ or ()) + list((fn.__kwdefaults__ or {}).values())
        out[name] = [canon(d) for d in ds if isinstance(d, dict)]
    cal = getattr(nn, "_cal_params", None)
    out["_cal"] = None if cal is None else [len(cal[0]), int(cal[1])]
    out["_env"] = process_settings()
    return copy.deepcopy(out)
