"""Pools substituted for pyrepseq.nn.Pool (harness side, guard ANDIM_PYREPSEQ_VERIF=1).

SpecDrivenPool  executes the worker function in-process in exactly the interleaving a TLC behaviour of KdPool.tla
                prescribes; the module-level parameter block seen by "workers" is the snapshot taken when the pool was
                created (fork semantics), so code that creates the pool before writing the block, reads parameters in
                the parent, or relies on completion order is exercised under adversarial schedules.
RecordingPool   a real multiprocessing pool whose tasks log (pid, per-process sequence number, task index, parameter
                block tag seen) to per-process files; only per-process order is ever used.
"""
from __future__ import annotations

import json
import multiprocessing
import os
import tempfile

_MISSING = object()


def block_tag(nn):
    """What a process sees in the module-level parameter block (content based, so staleness is observable)."""
    p = getattr(nn, "_cal_params", _MISSING)
    if p is _MISSING:
        return None
    try:
        seqs, max_edits, limit, cd, maxc = p
        return [len(seqs), str(seqs[0]) if len(seqs) else "", int(max_edits), -1 if limit is None else int(limit),
                "fn" if callable(cd) else str(cd)]
    except Exception:      # noqa: BLE001 - the block may have been restructured
        return ["?", repr(p)[:80]]


# ---------------------------------------------------------------------------------------------- spec driven

class SpecDrivenPool:
    """Pool(n) stand-in driven by a schedule: list of chunk numbers (1-based) in FINISH order."""

    def __init__(self, nn, processes, finish_order, log):
        self.nn = nn
        self.processes = processes
        self.finish_order = list(finish_order)
        self.log = log
        self.snapshot = getattr(nn, "_cal_params", _MISSING)       # inherited by the children at fork
        log.append(dict(ev="fork", ncpu=processes, tag=block_tag(nn)))

    def __enter__(self):
        return self

    def __exit__(self, *a):
        return False

    def close(self):
        pass

    def join(self):
        pass

    def terminate(self):
        pass

    def _in_worker(self, func, item):
        nn = self.nn
        parent = getattr(nn, "_cal_params", _MISSING)
        if self.snapshot is _MISSING:
            if hasattr(nn, "_cal_params"):
                del nn._cal_params
        else:
            nn._cal_params = self.snapshot
        try:
            return func(item)
        finally:
            if parent is _MISSING:
                if hasattr(nn, "_cal_params"):
                    del nn._cal_params
            else:
                nn._cal_params = parent

    def _run(self, func, iterable, chunksize):
        items = list(iterable)
        n = len(items)
        if chunksize is None:
            chunksize, extra = divmod(n, self.processes * 4)
            if extra:
                chunksize += 1
        self.log.append(dict(ev="map", n=n, chunksize=chunksize))
        if n == 0:
            return [], [], []
        if chunksize <= 0:
            return None, None, None      # multiprocessing's MapResult: [None] * n without running anything
        chunks = [list(range(i, min(i + chunksize, n))) for i in range(0, n, chunksize)]
        order = [c - 1 for c in self.finish_order if 1 <= c <= len(chunks)]
        rest = [c for c in range(len(chunks)) if c not in order]
        if rest:
            self.log.append(dict(ev="schedule_mismatch", chunks=len(chunks), scheduled=len(order)))
        order += rest[::-1]
        slots = [None] * len(chunks)
        for c in order:
            slots[c] = [self._in_worker(func, items[t]) for t in chunks[c]]
        return chunks, order, slots

    def map(self, func, iterable, chunksize=None):
        items = list(iterable)
        chunks, order, slots = self._run(func, items, chunksize)
        if chunks is None:
            return [None] * len(items)
        return [r for c in range(len(chunks)) for r in slots[c]]

    def starmap(self, func, iterable, chunksize=None):
        return self.map(lambda a: func(*a), iterable, chunksize)

    def imap(self, func, iterable, chunksize=1):
        return iter(self.map(func, iterable, chunksize))

    def imap_unordered(self, func, iterable, chunksize=1):
        items = list(iterable)
        chunks, order, slots = self._run(func, items, chunksize)
        if chunks is None:
            return iter([])
        return iter([r for c in order for r in slots[c]])

    def map_async(self, func, iterable, chunksize=None, callback=None, error_callback=None):
        res = self.map(func, iterable, chunksize)

        class _R:
            def get(self, timeout=None):
                return res

            def wait(self, timeout=None):
                pass

            def ready(self):
                return True

            def successful(self):
                return True
        if callback:
            callback(res)
        return _R()

    def apply_async(self, func, args=(), kwds=None, callback=None, error_callback=None):
        val = self._in_worker(lambda a: func(*a, **(kwds or {})), args)

        class _R:
            def get(self, timeout=None):
                return val
        return _R()


# ---------------------------------------------------------------------------------------------- recording (real processes)

_REC_DIR = None
_SEQNO = 0


def _traced(name_and_args):
    """Runs in a worker process: the real worker function plus one log line (per-process file, O_APPEND)."""
    global _SEQNO
    import pyrepseq.nn as nn
    name, args = name_and_args
    tag = block_tag(nn)
    try:
        return getattr(nn, name)(args)
    finally:
        _SEQNO += 1
        i = int(args[0]) if isinstance(args, tuple) and args else -1
        line = json.dumps(dict(pid=os.getpid(), seq=_SEQNO, task=i, tag=tag)) + "\n"
        fd = os.open(os.path.join(_REC_DIR, f"w{os.getpid()}.ndjson"), os.O_WRONLY | os.O_CREAT | os.O_APPEND, 0o644)
        try:
            os.write(fd, line.encode())
        finally:
            os.close(fd)


class RecordingPool:
    def __init__(self, nn, processes, log, recdir):
        global _REC_DIR, _SEQNO
        _REC_DIR = recdir
        _SEQNO = 0
        self.nn = nn
        self.log = log
        log.append(dict(ev="fork", ncpu=processes, tag=block_tag(nn)))
        self.pool = multiprocessing.get_context("fork").Pool(processes)

    def __enter__(self):
        self.pool.__enter__()
        return self

    def __exit__(self, *a):
        return self.pool.__exit__(*a)

    def map(self, func, iterable, chunksize=None):
        items = list(iterable)
        self.log.append(dict(ev="map", n=len(items), chunksize=chunksize))
        return self.pool.map(_traced, [(func.__name__, it) for it in items], chunksize)

    def __getattr__(self, name):
        # any other pool API the code may switch to is passed through untraced
        return getattr(self.pool, name)


def read_worker_logs(recdir):
    out = {}
    for fn in sorted(os.listdir(recdir)):
        if fn.endswith(".ndjson"):
            with open(os.path.join(recdir, fn)) as f:
                rows = [json.loads(l) for l in f if l.strip()]
            rows.sort(key=lambda r: r["seq"])
            if rows:
                out[rows[0]["pid"]] = rows
    return out


def new_recdir():
    return tempfile.mkdtemp(prefix="pvpool_")
