"""Shared pieces of C06 / C16: running Estimators.tla configurations and comparing code values with spec rationals."""
from __future__ import annotations

import json
import math
import os
import shutil
import tempfile

from . import tlc
from .core import MachineryFailure


def cfg_text(kinds, maxn=4, maxk=2, maxn2=2, maxlen=2, maxcount=2, setvals=(1, 2), maxsetlen=2, mutations=(), invs=(), emit=True):
    t = "SPECIFICATION Spec\nCONSTANTS\n"
    t += f"  MaxN = {maxn}\n  MaxK = {maxk}\n  MaxN2 = {maxn2}\n  MaxLen = {maxlen}\n  MaxCount = {maxcount}\n"
    t += f"  SetVals = {{{', '.join(map(str, setvals))}}}\n  MaxSetLen = {maxsetlen}\n"
    t += "  Kinds = {" + ", ".join(f'"{k}"' for k in kinds) + "}\n"
    t += "  Mutations = {" + ", ".join(f'"{k}"' for k in mutations) + "}\n"
    for i in invs:
        t += f"INVARIANT {i}\n"
    if emit:
        t += "INVARIANT EmitCase\n"
    return t


def run_cfg(ctx, name, text, expect_violation=None, workers=16):
    d = tempfile.mkdtemp(prefix="pvcfg_")
    try:
        p = os.path.join(d, name + ".cfg")
        with open(p, "w") as f:
            f.write(text)
        return ctx.mc("MCEstimators", p, workers=workers, expect_violation=expect_violation)
    finally:
        shutil.rmtree(d, ignore_errors=True)


def evaluate(ctx, sessions, invariants=(), count=True):
    """sessions: [{sid, kind, n, m}] -> {sid: res} with res the spec's exact values (TLC as oracle)."""
    if not sessions:
        return {}
    d = tempfile.mkdtemp(prefix="pvtr_")
    try:
        tf = os.path.join(d, "trace.json")
        with open(tf, "w") as f:
            json.dump(sessions, f)
        cfg = os.path.join(d, "TraceEstimators.cfg")
        with open(cfg, "w") as f:
            f.write("SPECIFICATION TraceSpec\nCONSTANTS\n  MaxN = 2\n  MaxK = 1\n  MaxN2 = 1\n  MaxLen = 1\n  MaxCount = 1\n  SetVals = {1}\n"
                    "  MaxSetLen = 1\n  Kinds = {\"mean\"}\n  Mutations = {}\n")
            for i in invariants:
                f.write(f"INVARIANT {i}\n")
            f.write("INVARIANT EmitVerdict\nCHECK_DEADLOCK FALSE\n")
        res = tlc.run("TraceEstimators", cfg, workers=min(16, len(sessions)), env={"PV_TRACE_FILE": tf})
    finally:
        shutil.rmtree(d, ignore_errors=True)
    if not res.ok:
        raise MachineryFailure(f"TraceEstimators: {res.violated} violated on harness-chosen inputs:\n{res.error_trace[:2500]}")
    out = {doc["sid"]: doc["res"] for doc in res.printed if isinstance(doc, dict) and "res" in doc}
    missing = [s["sid"] for s in sessions if s["sid"] not in out]
    if missing:
        raise MachineryFailure(f"TraceEstimators: no result for sessions {missing[:5]}\n{res.raw_tail[-1500:]}")
    if count:
        ctx.states += res.distinct
        ctx.transitions += res.generated
        ctx.tlc_runs.append(dict(res.as_dict(), kind="spec_evaluation_on_sampled_inputs", sessions=len(sessions)))
    return out


def is_nan_rat(r):
    return r[1] == 0


BASE = 10000        # limb base of spec/BigInt.tla as instantiated in Estimators.tla


def is_big(r):
    return isinstance(r[0], list)


def big_fraction(q):
    """<<integer, natural>> of BigInt.tla ([[sign, limbs], limbs], little-endian base-10000 limbs) -> Fraction"""
    from fractions import Fraction
    (sign, nl), dl = q
    num = sum(d * BASE ** i for i, d in enumerate(nl))
    den = sum(d * BASE ** i for i, d in enumerate(dl))
    return Fraction(sign * num, den)


def close_big(x, q, rel=1e-7):
    """code value vs the specification's arbitrary-precision rational: relative comparison (values may be tiny)"""
    try:
        x = float(x)
    except Exception:      # noqa: BLE001
        return False
    if not is_big(q):
        return close(x, q)
    if math.isnan(x) or math.isinf(x):
        return False
    want = big_fraction(q)
    w = float(want)
    return abs(x - w) <= rel * abs(w) + 1e-300


def close(x, rat, tol=1e-9):
    """code value x vs spec rational (den 0 = NaN)"""
    try:
        x = float(x)
    except Exception:      # noqa: BLE001
        return False
    if is_nan_rat(rat):
        return math.isnan(x)
    if math.isnan(x) or math.isinf(x):
        return False
    want = rat[0] / rat[1]
    return abs(x - want) <= tol * max(1.0, abs(want))
