"""API-argument coverage of a check run (diagnostic, enabled by PV_APICOV=<file>): every public function / method of pyrepseq is
wrapped and the classes of the values each parameter received are recorded, so that parameters a check never varies show up."""
from __future__ import annotations

import atexit
import functools
import inspect
import json
import os
import sys

_LOG = {}


def _bucket(n):
    return "0" if n == 0 else "1" if n == 1 else "2-9" if n < 10 else "10-99" if n < 100 else "100-999" if n < 1000 else "1000+"


def _cls(v):
    import numpy as np
    if v is None or isinstance(v, (bool, np.bool_)):
        return repr(v)
    if isinstance(v, (int, np.integer)):
        return f"int:{int(v)}" if abs(int(v)) < 50 else f"int:{'big' if v > 0 else '-big'}"
    if isinstance(v, (float, np.floating)):
        return f"float:{v:g}" if abs(v) < 50 or v != v or v in (float("inf"), float("-inf")) else "float:big"
    if isinstance(v, str):
        return f"str:{v!r}" if len(v) <= 24 else "str:long"
    if isinstance(v, np.ndarray):
        return f"ndarray[{v.dtype.kind}{v.dtype.itemsize if v.dtype.kind in 'iuf' else ''}]:{_bucket(v.shape[0] if v.ndim else 0)}"
    tn = type(v).__name__
    if tn == "Series":
        idx = "default" if list(v.index[:3]) == list(range(min(3, len(v)))) else "other-index"
        return f"Series[{v.dtype}]:{_bucket(len(v))}:{idx}"
    if tn == "DataFrame":
        return f"DataFrame:{_bucket(len(v))}x{v.shape[1]}"
    if isinstance(v, (list, tuple, set, frozenset)):
        return f"{tn}:{_bucket(len(v))}"
    if isinstance(v, dict):
        return "dict:" + ",".join(sorted(map(str, v))[:6])
    if callable(v):
        return "callable:" + getattr(v, "__name__", tn)
    return tn


def _record(qual, sig, args, kwargs):
    try:
        ba = sig.bind(*args, **kwargs)
    except TypeError:
        return
    ent = _LOG.setdefault(qual, dict(calls=0, params={}))
    ent["calls"] += 1
    given = set(ba.arguments)
    for name, p in sig.parameters.items():
        if name == "self":
            continue
        d = ent["params"].setdefault(name, {})
        if name in given:
            v = ba.arguments[name]
            if p.kind == p.VAR_KEYWORD:
                for k, vv in v.items():
                    dd = ent["params"].setdefault("**" + k, {})
                    c = _cls(vv)
                    if len(dd) < 40 or c in dd:
                        dd[c] = dd.get(c, 0) + 1
                continue
            c = _cls(v)
        else:
            c = "<default>"
        if len(d) < 40 or c in d:
            d[c] = d.get(c, 0) + 1


def _wrap(fn, qual):
    sig = inspect.signature(fn)

    @functools.wraps(fn)
    def w(*a, **k):
        _record(qual, sig, a, k)
        return fn(*a, **k)
    w.__pv_wrapped__ = True
    return w


def install(path):
    import pyrepseq  # noqa: F401
    import pyrepseq.metric.tcr_metric.tcr_levenshtein  # noqa: F401
    mods = {n: m for n, m in sys.modules.items() if n.startswith("pyrepseq") and m is not None}
    repl = {}
    for mn, m in mods.items():
        for name, obj in list(vars(m).items()):
            if name.startswith("_"):
                continue
            if inspect.isfunction(obj) and getattr(obj, "__module__", "").startswith("pyrepseq") and not getattr(obj, "__pv_wrapped__", False):
                key = id(obj)
                if key not in repl:
                    repl[key] = _wrap(obj, f"{obj.__module__.replace('pyrepseq.', '')}.{obj.__name__}")
            elif inspect.isclass(obj) and getattr(obj, "__module__", "").startswith("pyrepseq"):
                for an, av in list(vars(obj).items()):
                    if an.startswith("_") and an != "__init__":
                        continue
                    if inspect.isfunction(av) and not getattr(av, "__pv_wrapped__", False):
                        try:
                            setattr(obj, an, _wrap(av, f"{obj.__module__.replace('pyrepseq.', '')}.{obj.__name__}.{an}"))
                        except (AttributeError, TypeError):
                            pass
    for mn, m in mods.items():
        for name, obj in list(vars(m).items()):
            if inspect.isfunction(obj) and id(obj) in repl:
                setattr(m, name, repl[id(obj)])

    def dump():
        try:
            old = json.load(open(path)) if os.path.exists(path) else {}
        except Exception:      # noqa: BLE001
            old = {}
        for q, ent in _LOG.items():
            o = old.setdefault(q, dict(calls=0, params={}))
            o["calls"] += ent["calls"]
            for pn, d in ent["params"].items():
                od = o["params"].setdefault(pn, {})
                for c, n in d.items():
                    od[c] = od.get(c, 0) + n
        with open(path, "w") as f:
            json.dump(old, f, indent=1, sort_keys=True)
    atexit.register(dump)
