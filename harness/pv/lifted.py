"""Large inputs as copies of a few elements.

A size threshold, a blocking scheme or a bulk code path of the implementation only shows on inputs far larger than anything TLC
can evaluate directly. The harness therefore builds a large input whose positions hold copies of the few elements of a recorded
session that the Trace* module of the family has just ACCEPTED (so the session's result is the specification's answer for those
elements) and lifts that answer through the position -> element map: distances, neighbours, histogram counts and cluster
partitions of copies are determined by those of the elements. Only index arithmetic happens here."""
from __future__ import annotations

import numpy as np


# sizes of large inputs: blocking schemes cut at powers of two, and their off-by-one mistakes show one element before / after
BOUNDARY_SIZES = [1023, 1024, 1025, 1100, 2047, 2048, 2049, 1500]


def boundary_size(k):
    return BOUNDARY_SIZES[k % len(BOUNDARY_SIZES)]


def index_map(rng, m, big):
    """every element is used at least once; the remaining positions copy random elements; shuffled"""
    idx = list(range(m)) + [rng.randrange(m) for _ in range(max(0, big - m))]
    rng.shuffle(idx)
    return idx


def square_from_condensed(vec, m):
    """row-major upper triangle (the layout the specification's PdistLayout fixes) -> full symmetric matrix, zero diagonal"""
    D = np.zeros((m, m), dtype=float)
    k = 0
    for i in range(m):
        for j in range(i + 1, m):
            D[i, j] = D[j, i] = vec[k]
            k += 1
    return D


def lift_matrix(D, idx_rows, idx_cols):
    D = np.asarray(D, dtype=float)
    return D[np.ix_(np.asarray(idx_rows), np.asarray(idx_cols))]


def lift_condensed(D, idx):
    ia = np.asarray(idx)
    iu, ju = np.triu_indices(len(idx), k=1)
    return np.asarray(D, dtype=float)[ia[iu], ia[ju]]
