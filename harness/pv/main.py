"""./check <ID> [--tier quick|thorough] [--replay path]"""
from __future__ import annotations

import argparse
import importlib
import json
import os
import sys

# environment of every check, set before numpy / pyrepseq are imported
os.environ.setdefault("ANDIM_PYREPSEQ_VERIF", "1")
os.environ.setdefault("MPLBACKEND", "Agg")
os.environ.setdefault("PYTHONHASHSEED", "0")
os.environ.setdefault("OMP_NUM_THREADS", "1")
os.environ.setdefault("OPENBLAS_NUM_THREADS", "1")
os.environ["PYTHONDONTWRITEBYTECODE"] = "1"
sys.dont_write_bytecode = True
REPO = os.environ.get("PV_REPO", "/repo")       # the tree under test (default: /repo's working tree)
if REPO not in sys.path:
    sys.path.insert(0, REPO)

import warnings  # noqa: E402

warnings.filterwarnings("ignore")

from . import core  # noqa: E402


def main(argv=None):
    ap = argparse.ArgumentParser()
    ap.add_argument("prop")
    ap.add_argument("--tier", default=os.environ.get("VERIF_TIER", "quick"), choices=["quick", "thorough"])
    ap.add_argument("--replay", default=None)
    ap.add_argument("--seed", type=int, default=None)
    a = ap.parse_args(argv)
    seed = a.seed if a.seed is not None else int(os.environ.get("VERIF_SEED", "0") or 0)
    prop = a.prop.upper()
    if os.environ.get("PV_APICOV"):                 # diagnostic: which argument classes does this run exercise?
        from . import apicov
        apicov.install(os.environ["PV_APICOV"])
    mod = importlib.import_module(f"pv.props.{prop.lower()}")
    if a.replay:
        with open(a.replay) as f:
            doc = json.load(f)
        rc = mod.replay(doc)
        return rc
    return core.run_check(prop, a.tier, seed, mod.run)


if __name__ == "__main__":
    sys.exit(main())
