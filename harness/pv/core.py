"""Shared context of all property checks: TLC bookkeeping, violations / known findings,
replay files, evidence."""
from __future__ import annotations

import hashlib
import json
import os
import random
import sys
import time
import traceback

from . import tlc

ROOT = os.path.dirname(os.path.dirname(os.path.dirname(os.path.abspath(__file__))))   # /verif
# evidence/ and replays/ describe runs against /repo's working tree; a run against another tree (PV_REPO=<scratch worktree>, used to
# try the checks on seeded changes) writes to a scratch directory instead, so that it can never be mistaken for evidence
_OTHER_TREE = os.path.realpath(os.environ.get("PV_REPO", "/repo")) != os.path.realpath("/repo")
_SCRATCH = os.path.join("/tmp", "pv_other_tree", os.path.basename(os.path.realpath(os.environ.get("PV_REPO", "/repo"))))
EVIDENCE_DIR = os.path.join(_SCRATCH, "evidence") if _OTHER_TREE else os.path.join(ROOT, "evidence")
REPLAY_DIR = os.path.join(_SCRATCH, "replays") if _OTHER_TREE else os.path.join(ROOT, "replays")
KNOWN_FILE = os.path.join(ROOT, "known_findings.json")


class MachineryFailure(RuntimeError):
    pass


def mix(n):
    """scrambled copy of a replay counter: replays choose their argument variants (container, index labels, option values) from it
    by small moduli; the counter itself is also used to thin the quick tiers (every k-th behaviour), and n % k == 0 would tie the
    variant to the thinning pattern (some variants would never be exercised)"""
    import zlib
    return zlib.crc32(str(n).encode())


def load_known():
    try:
        with open(KNOWN_FILE) as f:
            return json.load(f).get("findings", [])
    except FileNotFoundError:
        return []


def jdefault(o):
    import numpy as np
    if isinstance(o, (np.integer,)):
        return int(o)
    if isinstance(o, (np.floating,)):
        return float(o)
    if isinstance(o, np.ndarray):
        return o.tolist()
    if isinstance(o, (set, frozenset)):
        return sorted(o, key=repr)
    if isinstance(o, tuple):
        return list(o)
    return repr(o)


class Ctx:
    def __init__(self, prop: str, tier: str, seed: int):
        self.prop = prop
        self.tier = tier
        self.seed = seed
        self.rng = random.Random(seed * 1000003 + int(hashlib.sha1(prop.encode()).hexdigest()[:6], 16))
        self.t0 = time.time()
        self.tlc_runs = []
        self.states = 0
        self.transitions = 0
        self.traces = 0            # traces / behaviours validated against the implementation
        self.evaluations = 0       # concrete executions of implementation code compared with the spec
        self.nontrivial = set()    # digests of distinct non-trivial cases
        self.samples = []
        self.violations = []       # new violations
        self.known_hits = {}       # key -> count
        self.notes = []
        self.extra = {}            # extra coverage keys
        self.negative = []         # negative controls (mutant specs / corrupted traces) and outcome
        self.exhaustive = False
        self.rule = ""
        self.assumptions = []
        self._known = [k for k in load_known() if k.get("property") == prop]
        self.quick = tier == "quick"

    # ---------------------------------------------------------------- TLC
    def mc(self, module, cfg, *, expect_violation=None, count=True, **kw):
        """Model-check; a violated invariant is a machinery failure (the spec is wrong or the
        design is) unless expect_violation names the invariant(s) a *negative* config must trip."""
        res = tlc.run(module, cfg, **kw)
        return self._account(res, module, cfg, expect_violation, count)

    def mc_batch(self, module, jobs, *, parallel=4, workers=4, **kw):
        """Model-check several generated configurations of one module concurrently.
        jobs: [(name, cfg_text, expect_violation | None)]; returns {name: TlcResult} (accounting as in mc())."""
        import shutil
        import tempfile
        from concurrent.futures import ThreadPoolExecutor
        d = tempfile.mkdtemp(prefix="pvcfg_")
        try:
            paths = {}
            for name, text, _ in jobs:
                paths[name] = os.path.join(d, name + ".cfg")
                with open(paths[name], "w") as f:
                    f.write(text)
            with ThreadPoolExecutor(max_workers=parallel) as ex:
                futs = {name: ex.submit(tlc.run, module, paths[name], workers=workers, **kw) for name, _, _ in jobs}
                out = {}
                for name, _, expect in jobs:
                    out[name] = self._account(futs[name].result(), module, paths[name], expect, True)
            return out
        finally:
            shutil.rmtree(d, ignore_errors=True)

    def _account(self, res, module, cfg, expect_violation, count):
        d = res.as_dict()
        if expect_violation:
            hit = [v for v in res.violated if v in expect_violation] if isinstance(expect_violation, (list, tuple, set)) else res.violated
            ok = (not res.ok) and bool(hit)
            self.negative.append(dict(kind="spec_mutant", cfg=cfg, rejected=ok, violated=res.violated))
            if not ok:
                raise MachineryFailure(f"negative config {cfg} was NOT rejected by TLC (violated={res.violated})")
            d["negative"] = True
        else:
            if not res.ok:
                raise MachineryFailure(f"TLC reports {res.violated} violated in {module}/{cfg}:\n{res.error_trace[:4000]}")
            if count:
                self.states += res.distinct
                self.transitions += res.generated
        self.tlc_runs.append(d)
        return res

    # ---------------------------------------------------------------- cases
    def case(self, obj, nontrivial: bool):
        """Count one implementation execution; obj is any JSON-able description of the case."""
        self.evaluations += 1
        if nontrivial:
            h = hashlib.sha1(json.dumps(obj, sort_keys=True, default=jdefault).encode()).hexdigest()[:16]
            self.nontrivial.add(h)
        if len(self.samples) < 6 and (nontrivial or len(self.samples) < 2):
            self.samples.append(obj)

    # ---------------------------------------------------------------- violations
    def violation(self, key: str, what: str, replay: dict):
        """An API-observable contradiction between implementation and specification."""
        if getattr(self, "_collected", None) is not None:       # worker sub-context: the parent records and reports
            if len(self._collected) < 60:
                self._collected.append((key, what, replay))
            else:
                self._collected.append((key, what[:200], None))
            return
        for k in self._known:
            if k.get("status") == "open" and k.get("key") == key:
                n = self.known_hits.get(key, 0)
                self.known_hits[key] = n + 1
                if n == 0:
                    print(f"KNOWN-FINDING: property={self.prop} {k.get('what', key)} [{key}]", flush=True)
                return
        n = len(self.violations)
        if n >= 25:
            self.violations.append(dict(key=key, what=what, replay=None))
            return
        d = os.path.join(REPLAY_DIR, self.prop)
        os.makedirs(d, exist_ok=True)
        path = os.path.join(d, f"{self.tier}_{n:03d}.json")
        with open(path, "w") as f:
            json.dump(dict(property=self.prop, key=key, what=what, replay=replay), f, indent=1, default=jdefault)
        self.violations.append(dict(key=key, what=what, replay=path))
        print(f"VIOLATION property={self.prop} replay={path}", flush=True)
        print(f"  key={key} :: {what}"[:600], flush=True)

    def note(self, s):
        self.notes.append(s)

    def sample(self, docs, budget, what="behaviours"):
        """Replay budget of the thorough tier: TLC's model check is always exhaustive; when it emitted more behaviours than the
        budget a seeded uniform sample is replayed on the implementation (recorded in the evidence notes)."""
        docs = list(docs)
        if budget is None or self.quick or len(docs) <= budget:
            return docs
        self.note(f"{len(docs)} {what} emitted by TLC, seeded sample of {budget} replayed")
        return self.rng.sample(docs, budget)

    # ---------------------------------------------------------------- parallel replay
    def parallel(self, items, fn, chunk=250, workers=None):
        """fn(ctx, i, item) for every item (i = 0-based position) in forked worker processes. Items are cut into fixed-size
        chunks (independent of the number of workers, so results do not depend on the machine); each chunk runs in order in one
        process with a sub-context whose counters, samples and violations are merged back in chunk order. Calls inside one
        chunk share the interpreter, so history effects between consecutive replays stay observable."""
        items = list(items)
        if not items:
            return
        workers = workers or int(os.environ.get("PV_WORKERS", "0") or 0) or min(14, os.cpu_count() or 1)
        chunks = [(c, items[c:c + chunk]) for c in range(0, len(items), chunk)]
        if workers <= 1 or len(chunks) == 1:
            for i, it in enumerate(items):
                fn(self, i, it)
            return
        import multiprocessing as mp
        global _PAR
        _PAR = (self, fn, chunks)
        try:
            with mp.get_context("fork").Pool(min(workers, len(chunks))) as pool:
                results = pool.map(_par_chunk, range(len(chunks)), chunksize=1)
        finally:
            _PAR = None
        for r in results:
            if r.get("error"):
                raise MachineryFailure("replay worker failed:\n" + r["error"])
            self.evaluations += r["evaluations"]
            self.traces += r["traces"]
            self.nontrivial.update(r["nontrivial"])
            for smp in r["samples"]:
                if len(self.samples) < 6:
                    self.samples.append(smp)
            for nt in r["notes"]:
                if nt not in self.notes:
                    self.notes.append(nt)
            for k, v in r["extra"].items():
                self.extra[k] = self.extra.get(k, 0) + v
            for key, what, replay in r["violations"]:
                self.violation(key, what, replay)

    def _sub(self, index):
        c = Ctx.__new__(Ctx)
        c.__dict__.update(self.__dict__)
        c.rng = random.Random(self.seed * 7919 + index * 104729 + int(hashlib.sha1(self.prop.encode()).hexdigest()[:6], 16))
        c.traces = 0
        c.evaluations = 0
        c.nontrivial = set()
        c.samples = []
        c.notes = []
        c.extra = {}
        c._collected = []
        return c

    # ---------------------------------------------------------------- evidence
    def write_evidence(self, status="ok"):
        if self.prop.startswith("X"):
            return                                # extra checks keep their own file under evidence_extra/ (also when they fail)
        os.makedirs(EVIDENCE_DIR, exist_ok=True)
        cov = dict(
            states=self.states,
            transitions=self.transitions,
            traces_validated_against_impl=self.traces,
            evaluations=self.evaluations,
            distinct_nontrivial=len(self.nontrivial),
            rule=self.rule,
            samples=self.samples[:6] or ["(no case was executed)"],
            exhaustive=self.exhaustive,
            tlc_runs=self.tlc_runs,
            negative_controls=self.negative,
            known_findings_hit=self.known_hits,
            notes=self.notes,
            violation_keys=sorted({v["key"] for v in self.violations}),
            status=status,
        )
        cov.update(self.extra)
        ev = dict(
            property_id=self.prop,
            tier=self.tier,
            seed=self.seed,
            level="model_checking",
            coverage=cov,
            assumptions=self.assumptions,
            wall_s=round(time.time() - self.t0, 2),
            violations=len(self.violations),
        )
        path = os.path.join(EVIDENCE_DIR, f"{self.prop}.json")
        tmp = path + ".tmp"
        with open(tmp, "w") as f:
            json.dump(ev, f, indent=1, default=jdefault)
        os.replace(tmp, path)
        return path


_PAR = None


def _par_chunk(ci):
    parent, fn, chunks = _PAR
    start, items = chunks[ci]
    sub = parent._sub(ci)
    try:
        for k, it in enumerate(items):
            fn(sub, start + k, it)
    except BaseException:      # noqa: BLE001
        return dict(error=traceback.format_exc()[-3000:])
    return dict(evaluations=sub.evaluations, traces=sub.traces, nontrivial=list(sub.nontrivial), samples=sub.samples[:6],
                notes=sub.notes[:20], extra={k: v for k, v in sub.extra.items() if isinstance(v, (int, float))},
                violations=json.loads(json.dumps(sub._collected, default=jdefault)))


def run_check(prop: str, tier: str, seed: int, fn):
    ctx = Ctx(prop, tier, seed)
    d = os.path.join(REPLAY_DIR, prop)              # replay files of an earlier run of this tier are stale
    if os.path.isdir(d):
        for f in os.listdir(d):
            if f.startswith(tier + "_"):
                try:
                    os.remove(os.path.join(d, f))
                except OSError:
                    pass
    try:
        fn(ctx)
    except (MachineryFailure, tlc.TlcError) as e:
        if ctx.violations:
            # violations of the property were already established; a later self-test (e.g. a corrupted-trace control built
            # from the implementation's own - now wrong - output) cannot take that back: report the violations
            ctx.note("machinery failure after violations had been recorded (not counted): " + str(e)[:1000])
            ctx.write_evidence(status="violations_then_machinery_failure")
            print(f"[{prop}] tier={tier} seed={seed} violations={len(ctx.violations)} (a later self-test failed: {str(e)[:200]})", flush=True)
            return 1
        print(f"MACHINERY-FAILURE property={prop}: {e}", file=sys.stderr, flush=True)
        ctx.note("machinery failure: " + str(e)[:2000])
        ctx.write_evidence(status="machinery_failure")
        return 2
    except Exception:
        traceback.print_exc()
        ctx.note("harness exception: " + traceback.format_exc()[-2000:])
        ctx.write_evidence(status="machinery_failure")
        return 2
    if not prop.startswith("X"):              # extra checks (specification coverage beyond the listed properties) keep their own file
        ctx.write_evidence()
    wall = time.time() - ctx.t0
    print(f"[{prop}] tier={tier} seed={seed} states={ctx.states} transitions={ctx.transitions} "
          f"traces={ctx.traces} evaluations={ctx.evaluations} nontrivial={len(ctx.nontrivial)} "
          f"negative_controls={len(ctx.negative)} known={sum(ctx.known_hits.values())} "
          f"violations={len(ctx.violations)} wall={wall:.1f}s", flush=True)
    if ctx.violations:
        keys = {}
        for v in ctx.violations:
            keys[v["key"]] = keys.get(v["key"], 0) + 1
        for k, n in sorted(keys.items()):
            print(f"  violation key {k}: {n}", flush=True)
    return 1 if ctx.violations else 0
