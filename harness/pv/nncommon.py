"""Binding between NNSearch.tla / TraceNN.tla and pyrepseq.nn (properties C01 C03 C04 C07 C10 C14)."""
from __future__ import annotations

import json
import os
import tempfile

import numpy as np

from . import tlc
from .core import MachineryFailure

AA = "ACDEFGHIKLMNPQRSTVWY"
INF = 1000000

# ------------------------------------------------------------------ encodings


def enc(s: str, amap=None):
    """python string -> list of letter codes"""
    if amap is None:
        return [AA.index(c) for c in s]
    return [amap[c] for c in s]


def dec(codes, letters=AA):
    return "".join(letters[c] for c in codes)


def intern_alphabet(strings):
    """injective relabelling of arbitrary characters to codes 0.."""
    amap = {}
    for s in strings:
        for c in s:
            if c not in amap:
                amap[c] = len(amap)
    return amap


# ------------------------------------------------------------------ custom distances (quarters in the spec)

def _lev(a, b):
    # plain DP, independent of rapidfuzz (only used to *define* the custom distances handed to the code)
    if len(a) < len(b):
        a, b = b, a
    prev = list(range(len(b) + 1))
    for i, ca in enumerate(a, 1):
        cur = [i]
        for j, cb in enumerate(b, 1):
            cur.append(min(prev[j] + 1, cur[j - 1] + 1, prev[j - 1] + (ca != cb)))
        prev = cur
    return prev[-1]


def cd_function(fam: str):
    if fam == "lev2":
        return lambda a, b: 2.0 * _lev(a, b)
    if fam == "levq":
        return lambda a, b: 0.25 * _lev(a, b)
    if fam == "lev5":
        return lambda a, b: 5 * _lev(a, b)
    if fam == "hamlen":
        # a Python int 0 for identical strings, fractional values otherwise (the result type varies with the arguments)
        return lambda a, b: sum(0.25 for x, y in zip(a, b) if x != y) + abs(len(a) - len(b))
    if fam == "len":
        return lambda a, b: abs(len(a) - len(b))
    if fam == "disc":
        return lambda a, b: 0 if a == b else 3
    raise KeyError(fam)


def to_quarters(d):
    q = d * 4
    r = round(q)
    if abs(q - r) > 1e-9:
        return -7            # not representable: can never equal a spec value
    return int(r)


# ------------------------------------------------------------------ running the real code

def make_container(strs, kind):
    import pandas as pd
    n = len(strs)
    if kind == "list":
        return list(strs)
    if kind == "tuple":
        return tuple(strs)
    if kind == "ndarray":
        return np.array(list(strs), dtype=str) if n else np.array([], dtype=str)
    if kind == "series":
        return pd.Series(list(strs), dtype=object)
    if kind == "series_shift":
        return pd.Series(list(strs), index=range(5, 5 + n), dtype=object)
    if kind == "series_perm":
        return pd.Series(list(strs), index=list(range(n))[::-1], dtype=object)
    if kind == "series_str":
        return pd.Series(list(strs), index=[f"r{i}" for i in range(n)], dtype=object)
    raise KeyError(kind)


CONTAINERS = ["list", "tuple", "ndarray", "series", "series_shift", "series_perm", "series_str"]


_SAME = [0]


def call_engine(inp, letters=AA, api=None, output_type="triplets", container="list", n_cpu=1,
                max_returns=None, extra=None):
    """Run the public search function selected by inp on the real code; returns the raw result."""
    import pyrepseq.nn as nn
    seqs = make_container([dec(s, letters) for s in inp["seqs"]], container)
    kw = dict(max_edits=inp["k"], output_type=output_type)
    if inp["mode"] == "hamming":
        kw["custom_distance"] = "hamming"
    elif inp["mode"] == "custom":
        kw["custom_distance"] = cd_function(inp["cd"])
        kw["max_custom_distance"] = float("inf") if inp["maxc"] >= INF else inp["maxc"] / 4.0
    if extra:
        kw.update(extra)
    eng = inp["engine"]
    # a collection searched against ITSELF as second collection: every other such call hands over the very same object
    # (the two-collection answer - including the pairs of equal positions - does not depend on object identity)
    same = inp["two"] and inp["seqs2"] == inp["seqs"]
    if same:
        _SAME[0] += 1
    if eng == "symdel":
        fn = getattr(nn, api or "symdel")
        if inp["two"]:
            kw["seqs2"] = seqs if (same and _SAME[0] % 2) else make_container([dec(s, letters) for s in inp["seqs2"]], container)
        return fn(seqs, **kw)
    if eng == "hash":
        if inp["two"]:
            if api == "LookupDB" or api is None:
                db = nn.LookupDB(seqs)
                q = seqs if (same and _SAME[0] % 2) else make_container([dec(s, letters) for s in inp["seqs2"]], container)
                k = kw.pop("max_edits")
                return db.lookup(q, max_edits=k, **kw)
            raise KeyError(api)
        return nn.hash_based(seqs, **kw)
    if eng == "kd":
        kw["compression"] = inp.get("comp", 1)
        if n_cpu != 1:
            kw["n_cpu"] = n_cpu
        if max_returns is not None:
            kw["max_returns"] = max_returns
        return nn.kdtree(seqs, **kw)
    raise KeyError(eng)


def _position(x):
    """a reported position as an int; anything that is not a whole number (an index label leaking through, ...) becomes -9,
    which no expected triplet contains"""
    try:
        f = float(x)
        return int(f) if f == int(f) else -9
    except (TypeError, ValueError):
        return -9


def norm_triplets(ret, mode):
    """code result -> list of [i+1, j+1, d] with d an int (quarters in custom mode)."""
    out = []
    for t in ret:
        i, j, d = _position(t[0]), _position(t[1]), t[2]
        if mode == "custom":
            dd = to_quarters(float(d))
        else:
            dd = int(d) if float(d) == int(d) else -7
        out.append([i + 1, j + 1, dd])
    return out


def norm_dense(mat, mode):
    arr = np.asarray(mat)
    rows = []
    for r in arr.tolist():
        rows.append([to_quarters(float(x)) if mode == "custom" else (int(x) if float(x) == int(x) else -7) for x in r])
    return rows


# ------------------------------------------------------------------ sessions (code -> spec)

def _index_events(inp, letters):
    """Internal state after the build step, logged when small enough (drift level)."""
    import pyrepseq.nn as nn
    strs = [dec(s, letters) for s in inp["seqs"]]
    amap = {c: i for i, c in enumerate(letters)}
    try:
        if inp["engine"] == "symdel":
            db = nn.SymdelDB(strs, inp["k"])
            vd = db.variant_dict
            if sum(len(v) for v in vd.values()) > 4000:
                return dict(op="Build", logged=False)
            return dict(op="Build", logged=True,
                        index=[[enc(k, amap), [p + 1 for p in v]] for k, v in vd.items()], cand=[])
        if inp["engine"] == "hash":
            db = nn.LookupDB(strs)
            return dict(op="Build", logged=True,
                        index=[[enc(k, amap), [p + 1 for p in v]] for k, v in db.seq_dict.items()], cand=[])
        if inp["engine"] == "kd":
            if inp["mode"] == "hamming" or letters != AA:
                return dict(op="Build", logged=False)
            comp = inp.get("comp", 1)
            vecs = [[int(x) for x in nn._histogram_encode(s, comp)] for s in strs]
            captured = {}
            orig = nn._to_triplets

            def spy(seqs, y_indices, *a, **k):
                captured["y"] = [list(map(int, ys)) for ys in y_indices]
                return orig(seqs, y_indices, *a, **k)
            nn._to_triplets = spy
            try:
                nn.kdtree(strs, max_edits=inp["k"], compression=comp)
            finally:
                nn._to_triplets = orig
            if "y" not in captured:
                return dict(op="Build", logged=False)
            cand = [[i + 1, j + 1] for i, ys in enumerate(captured["y"]) for j in ys]
            return dict(op="Build", logged=True, index=vecs, cand=cand)
    except Exception:
        return dict(op="Build", logged=False)
    return dict(op="Build", logged=False)


def build_session(sid, inp, letters=AA, api=None, with_output=True, with_internal=True, lookups=None, container="list", output="ndarray"):
    """Execute the public calls of one session against the real code and log one event per spec action."""
    events = []
    raised = None
    ret = []
    try:
        ret = norm_triplets(call_engine(inp, letters, api=api, container=container), inp["mode"])
    except Exception as e:        # noqa: BLE001 - any exception on a valid input is an observation
        raised = e
    events.append(dict(op="CheckInput", raised=isinstance(raised, AssertionError)))
    events.append(_index_events(inp, letters) if with_internal else dict(op="Build", logged=False))
    events.append(dict(op="Join", raised=raised is not None, ret=ret,
                       exc=(type(raised).__name__ + ": " + str(raised)[:200]) if raised is not None else ""))
    if with_output:
        try:
            out = call_engine(inp, letters, api=api, output_type=output, container=container)
            dense = norm_dense(out.toarray() if output == "coo_matrix" else out, inp["mode"])
            events.append(dict(op="Output", raised=False, dense=dense))
        except Exception as e:    # noqa: BLE001
            events.append(dict(op="Output", raised=True, dense=[], exc=type(e).__name__ + ": " + str(e)[:200]))
    return dict(sid=sid, inp=inp, api=api or "", letters=letters, events=events, kind="plain",
                with_output=with_output, with_internal=with_internal, container=container, output=output)


def _snapshot(db):
    import copy
    d = getattr(db, "variant_dict", None)
    if d is None:
        d = getattr(db, "seq_dict", None)
    return copy.deepcopy((list(db.seqs), d, getattr(db, "max_edits", None)))


def build_db_session(sid, inp, lookups, letters=AA, with_internal=True):
    """C03 histories: one database object (SymdelDB / LookupDB), several lookups. inp.seqs2 is the first query list,
    lookups the further ones (lists of code lists)."""
    import pyrepseq.nn as nn
    ref = [dec(x, letters) for x in inp["seqs"]]
    eng = inp["engine"]
    events = [dict(op="CheckInput", raised=False)]
    events.append(_index_events(inp, letters) if with_internal else dict(op="Build", logged=False))
    def mode_kw(mode):
        if mode == "hamming":
            return dict(custom_distance="hamming")
        if mode == "custom":
            return dict(custom_distance=cd_function(inp["cd"]), max_custom_distance=float("inf") if inp["maxc"] >= INF else inp["maxc"] / 4.0)
        return {}
    db = nn.SymdelDB(ref, inp["k"]) if eng == "symdel" else nn.LookupDB(ref)
    api = "SymdelDB" if eng == "symdel" else "LookupDB"
    first = True
    for item in [inp["seqs2"]] + list(lookups):
        # a further lookup is a query list, or (query list, max_edits) for LookupDB whose radius is per lookup, or
        # (query list, max_edits, mode): the distance mode is an argument of every lookup (NNSearch!NewLookup(q, k, mode))
        mode_this = inp["mode"]
        if isinstance(item, (list, tuple)) and len(item) == 3 and isinstance(item[2], str):
            q, k_this, mode_this = item
        else:
            q, k_this = (item if (isinstance(item, (list, tuple)) and len(item) == 2 and isinstance(item[1], int) and not isinstance(item[0], int)) else (item, inp["k"]))
        kw = mode_kw(mode_this)
        if eng == "hash":
            kw["max_edits"] = k_this
        qs = [dec(x, letters) for x in q]
        before = _snapshot(db)
        raised, ret, dense = None, [], []
        try:
            ret = norm_triplets(db.lookup(qs, **kw), mode_this)
        except Exception as e:     # noqa: BLE001
            raised = e
        changed = _snapshot(db) != before
        if not first:
            events.append(dict(op="NewLookup", seqs2=q, k=k_this, mode=mode_this, db_changed=False))
        events.append(dict(op="Join", raised=raised is not None, ret=ret, db_changed=changed,
                           exc=(type(raised).__name__ + ": " + str(raised)[:200]) if raised is not None else ""))
        try:
            dense = norm_dense(db.lookup(qs, output_type="ndarray", **kw), mode_this)
            events.append(dict(op="Output", raised=False, dense=dense))
        except Exception as e:     # noqa: BLE001
            events.append(dict(op="Output", raised=True, dense=[], exc=type(e).__name__ + ": " + str(e)[:200]))
        first = False
    return dict(sid=sid, inp=inp, api=api, letters=letters, events=events, kind="db", lookups=list(lookups),
                with_internal=with_internal)


def rebuild_session(s):
    if s.get("kind") == "db":
        return build_db_session(s["sid"], s["inp"], s["lookups"], letters=s["letters"], with_internal=s.get("with_internal", True))
    return build_session(s["sid"], s["inp"], letters=s["letters"], api=s["api"] or None,
                         with_output=s.get("with_output", True), with_internal=s.get("with_internal", True),
                         container=s.get("container", "list"), output=s.get("output", "ndarray"))


# ------------------------------------------------------------------ validating sessions with TLC

TRACE_CFG_TEMPLATE = """SPECIFICATION TraceSpec
CONSTANTS
  Letters = {letters}
  MaxLen = 0
  MaxN = 1000000
  MaxN2 = 0
  Ks = {{1}}
  Engines = {{"symdel"}}
  Modes = {{"lev"}}
  CdFams = {{"none"}}
  MaxCs = {{1000000}}
  Comps = {{1}}
  MaxLookups = 0
  AsFound = {{}}
{invariants}
PROPERTY IndexStable
INVARIANT EmitVerdict
CHECK_DEADLOCK FALSE
"""


def validate_sessions(ctx, sessions, invariants=("Exact", "NoRepeat", "NoSelf"), workers=16,
                      count=True, timeout=1800, letters=None):
    """Run TraceNN over the sessions. Returns {sid: [ {l, op, failed[]} ... ]}."""
    if not sessions:
        return {}
    d = tempfile.mkdtemp(prefix="pvtr_")
    try:
        tf = os.path.join(d, "trace.json")
        with open(tf, "w") as f:
            json.dump([dict(sid=s["sid"], inp=s["inp"], events=s["events"]) for s in sessions], f)
        cfg = os.path.join(d, "TraceNN.cfg")
        with open(cfg, "w") as f:
            lset = "{" + ", ".join(str(x) for x in sorted(letters or [0])) + "}"
            f.write(TRACE_CFG_TEMPLATE.format(letters=lset, invariants="\n".join(f"INVARIANT {i}" for i in invariants)))
        res = tlc.run("TraceNN", cfg, workers=min(workers, max(1, len(sessions))), env={"PV_TRACE_FILE": tf},
                      timeout=timeout)
    finally:
        import shutil
        shutil.rmtree(d, ignore_errors=True)
    if not res.ok:
        raise MachineryFailure(f"TraceNN: invariant {res.violated} violated on a recorded trace "
                               f"(specification inconsistent with its own reference semantics):\n{res.error_trace[:3000]}")
    verdicts = {}
    for doc in res.printed:
        if isinstance(doc, dict) and "verdict" in doc:
            verdicts[doc["sid"]] = doc["verdict"]
    missing = [s["sid"] for s in sessions if s["sid"] not in verdicts]
    if missing:
        raise MachineryFailure(f"TraceNN: sessions {missing[:5]} were not consumed to the end (trace not a behaviour "
                               f"of the specification's machine; harness/spec mismatch)\n{res.raw_tail[-1500:]}")
    if count:
        ctx.states += res.distinct
        ctx.transitions += res.generated
        ctx.tlc_runs.append(dict(res.as_dict(), kind="trace_validation", sessions=len(sessions)))
    return verdicts


API_EVENTS = {"CheckInput", "Join", "Output", "OutputLimited", "NewLookup"}


def failed_api_clauses(verdict):
    """[(l, op, clause)] of API-level failures; drift (internal) clauses separately."""
    api, drift = [], []
    for ev in verdict:
        for c in ev["failed"]:
            (api if ev["op"] in API_EVENTS else drift).append((ev["l"], ev["op"], c))
    return api, drift


# ------------------------------------------------------------------ replay (spec -> code)

_NCALL = [0]


def compare_case(doc, letters=AA, api=None):
    """Step one TLC-emitted behaviour through the real code. Returns (api_mismatches, drift_mismatches)."""
    inp = doc["inp"]
    api_bad, drift = [], []
    want = sorted(map(tuple, doc["trip"]))
    _NCALL[0] += 1
    # every fifth call goes through the progress-bar code path where the function has one (the bar itself is disabled)
    extra = dict(progress=True) if (_NCALL[0] % 5 == 0 and api in ("symdel", "hash_based", "LookupDB")) else None
    # every third call hands the sequences over in another container (tuple, ndarray, Series with default / shifted / permuted /
    # string index): reported positions are ordinal positions whatever the container
    cont = CONTAINERS[(_NCALL[0] // 3) % len(CONTAINERS)] if _NCALL[0] % 3 == 0 else "list"
    tag = "" if cont == "list" else f" [container={cont}]"
    try:
        got_list = norm_triplets(call_engine(inp, letters, api=api, extra=extra, container=cont), inp["mode"])
    except Exception as e:     # noqa: BLE001
        return [("Join", "raised", f"{type(e).__name__}: {e}{tag}"[:200])], drift
    got = sorted(map(tuple, got_list))
    if len(got) != len(set((a, b) for a, b, _ in got)):
        api_bad.append(("Join", "repeated", str(got)[:300]))
    gs, ws = set(got), set(want)
    gp, wp = {(a, b) for a, b, _ in gs}, {(a, b) for a, b, _ in ws}
    miss = wp - gp
    if inp["two"] and any(a == b for a, b in miss):
        api_bad.append(("Join", "missing_pair_equal_positions", str(sorted(p for p in miss if p[0] == p[1]))[:300]))
        miss = {p for p in miss if p[0] != p[1]}
    if miss:
        api_bad.append(("Join", "missing_pair", str(sorted(miss))[:300] + tag))
    if gp - wp:
        api_bad.append(("Join", "spurious_pair", str(sorted(gp - wp))[:300] + tag))
    if (gs - ws) and not (gp - wp) and not (wp - gp):
        api_bad.append(("Join", "wrong_distance", str(sorted(gs - ws))[:300] + tag))
    # dense form
    try:
        dense = norm_dense(call_engine(inp, letters, api=api, output_type="ndarray", container=cont), inp["mode"])
        if dense != doc["dense"]:
            api_bad.append(("Output", "entry_differs", f"got {dense} want {doc['dense']}{tag}"[:300]))
    except Exception as e:     # noqa: BLE001
        api_bad.append(("Output", "raised", f"{type(e).__name__}: {e}{tag}"[:200]))
    # internal state
    ev = _index_events(inp, letters)
    if ev.get("logged"):
        if inp["engine"] == "kd":
            if ev["index"] != doc["index"]:
                drift.append(("Build", "index_differs", ""))
        else:
            a = sorted((tuple(v), tuple(p)) for v, p in ev["index"])
            b = sorted((tuple(v), tuple(p)) for v, p in doc["index"])
            if a != b:
                drift.append(("Build", "index_differs", ""))
    return api_bad, drift


def nontrivial(doc_or_inp, trip=None):
    """A search case is non-trivial when it has at least one neighbour pair."""
    if trip is None:
        trip = doc_or_inp.get("trip", [])
    return len(trip) > 0


# ------------------------------------------------------------------ input generators

def mutate(rng, s, nedits, letters=AA):
    s = list(s)
    for _ in range(nedits):
        op = rng.choice("sid")
        if op == "s" and s:
            s[rng.randrange(len(s))] = rng.choice(letters)
        elif op == "i":
            s.insert(rng.randrange(len(s) + 1), rng.choice(letters))
        elif op == "d" and s:
            del s[rng.randrange(len(s))]
    return "".join(s)


def long_family(rng, k, salt=0, letters=AA, lengths=None):
    """A handful of sequences far longer than CDR3s, their lengths sitting on both sides of the usual implementation thresholds
    (32 / 40 / 64 / 128 letters): for each length a random root, a relative within k edits (one of them by insertion, so that the
    pair straddles the threshold) and an unrelated string; plus the empty string and two ordinary CDR3s. Distances between
    unrelated long strings exceed 127."""
    lengths = lengths or [(32, 40, 64)[salt % 3], (41, 65, 129)[(salt // 3) % 3], 140]
    out = ["", "CASSLGQAYEQYF", "CASSLGQAYEQF"]
    for L in lengths:
        x = "".join(rng.choice(letters) for _ in range(L))
        pos = rng.randrange(L + 1)
        out.append(x)
        out.append(x[:pos] + rng.choice(letters) + x[pos:])                  # L + 1 letters, one insertion away
        out.append(mutate(rng, x, rng.randint(1, k), letters))
    out.append("".join(rng.choice(letters) for _ in range(150)))              # unrelated to everything
    rng.shuffle(out)
    return out


def repertoire(rng, n, letters=AA, minlen=6, maxlen=16, families=None, maxmut=3, short=1, dup=0.15,
               same_length=False):
    """CDR3-like repertoire: clonal families of mutated roots, exact duplicates, a few very short strings."""
    families = families or max(2, n // 6)
    roots = []
    for _ in range(families):
        L = rng.randint(minlen, maxlen)
        roots.append("".join(rng.choice(letters) for _ in range(L)))
    out = []
    while len(out) < n:
        r = rng.random()
        if out and r < dup:
            out.append(rng.choice(out))
        elif r < dup + 0.05 * short and not same_length:
            out.append("".join(rng.choice(letters) for _ in range(rng.randint(0, 2))))
        else:
            root = rng.choice(roots)
            if same_length:
                s = list(root)
                for _ in range(rng.randint(0, maxmut)):
                    s[rng.randrange(len(s))] = rng.choice(letters)
                out.append("".join(s))
            else:
                out.append(mutate(rng, root, rng.randint(0, maxmut), letters))
    rng.shuffle(out)
    return out


def expanded_clone(rng, copies, letters=AA, length=9, variants=12):
    """a repertoire dominated by one expanded clone: many exact copies plus its one- and two-edit relatives"""
    root = "".join(rng.choice(letters) for _ in range(length))
    out = [root] * copies
    for _ in range(variants):
        out.append(mutate(rng, root, rng.randint(1, 2), letters))
    for _ in range(6):
        out.append("".join(rng.choice(letters) for _ in range(rng.randint(5, 12))))
    rng.shuffle(out)
    return out, root


def all_strings(letters, maxlen):
    out = [""]
    layer = [""]
    for _ in range(maxlen):
        layer = [s + c for s in layer for c in letters]
        out += layer
    return out


def make_inp(engine, mode, k, seqs, seqs2=None, cd="none", maxc=INF, comp=1, letters=AA):
    amap = {c: i for i, c in enumerate(letters)}
    return dict(engine=engine, mode=mode, k=k, seqs=[enc(s, amap) for s in seqs], two=seqs2 is not None,
                seqs2=[enc(s, amap) for s in (seqs2 or [])], cd=cd, maxc=maxc, comp=comp)
