def nb_vector_tcrdist(a, b, ntrim=3, ctrim=2, dist_weight=1, gap_penalty=4, fixed_gappos=False, use_numba=False, **_):
    a = a[ntrim:len(a) - ctrim] if len(a) > ntrim + ctrim else ""
    b = b[ntrim:len(b) - ctrim] if len(b) > ntrim + ctrim else ""
    if len(a) < len(b):
        a, b = b, a
    gap = len(a) - len(b)
    # shorter string aligned at the start (fixed_gappos) or at the best single gap position
    best = None
    positions = [len(b)] if fixed_gappos else range(len(b) + 1)
    for g in positions:
        aligned = a[:g] + a[g + gap:]
        cost = sum(4 for x, y in zip(aligned, b) if x != y)
        best = cost if best is None or cost < best else best
    return dist_weight * (best or 0) + gap_penalty * gap
