"""Vendored stand-in for the optional dependency `pwseqdist` (absent from the sandbox).

Only what pyrepseq.nearest_neighbor_tcrdist uses: `apply_pairwise_sparse` and `metrics.nb_vector_tcrdist`.
The CDR3 distance is a deterministic, symmetric, integer-valued function with trimming, a mismatch cost scaled by
dist_weight and a gap penalty per length difference - enough to exercise pyrepseq's *composition* (candidate pairs by
edit distance, V-table lookup, CDR3 distance, sum over chains, radius filter), which is what property C14 states.
It is put on sys.path by the C14 / C20 drivers only.
"""
import numpy as np

from . import metrics  # noqa: F401


def apply_pairwise_sparse(metric, seqs, pairs, **kwargs):
    pairs = np.asarray(pairs)
    out = np.zeros(len(pairs), dtype=np.int64)
    for n, (i, j) in enumerate(pairs):
        out[n] = metric(seqs[int(i)], seqs[int(j)], **kwargs)
    return out
