#!/usr/bin/env python3
"""tools/confirm_seed.py <ID> [dest-name] [--tier quick|thorough]
Confirms a sub-agent's seeded change in /tmp/wt/<ID> (tests still pass, demo fails with / passes without the change),
runs ./check <ID> against that worktree, and archives everything under /verif/seeded/<dest>/."""
import json, os, shutil, subprocess, sys, xml.etree.ElementTree as ET

name = sys.argv[1]                       # worktree name under /tmp/wt, e.g. C05 or C05b
pid = name[:3]
dest = sys.argv[2] if len(sys.argv) > 2 and not sys.argv[2].startswith("--") else name
tier = sys.argv[sys.argv.index("--tier") + 1] if "--tier" in sys.argv else "quick"
wt = f"/tmp/wt/{name}"
seed = f"{wt}/_seed"
base = json.load(open("/root/.vp/BASELINE.json"))
env = dict(os.environ, PYTHONPATH=wt)
env.pop("ANDIM_PYREPSEQ_VERIF", None)


def sh(cmd, **kw):
    return subprocess.run(cmd, shell=True, stdout=subprocess.PIPE, stderr=subprocess.STDOUT, text=True, env=env, **kw)


def suite():
    out = f"/tmp/wt/_junit_{name}.xml"
    sh(f"cd {wt} && /venv/bin/python -m pytest -q -p no:cacheprovider --timeout=900 --continue-on-collection-errors --junitxml={out}")
    passed = {f"{tc.get('classname')}::{tc.get('name')}" for tc in ET.parse(out).getroot().iter("testcase")
              if not any(ch.tag in ("failure", "error", "skipped") for ch in tc)}
    os.remove(out)
    return [t for t in base["stable_pass"] if t not in passed]


def demo():
    return sh(f"/venv/bin/python {seed}/demo.py", cwd=wt).returncode


# the patch as delivered, re-derived from the worktree
diff = sh(f"git -C {wt} diff -- pyrepseq").stdout
assert diff.strip(), "no change applied in the worktree"
open(f"{seed}/patch.diff", "w").write(diff)
where = sh("/venv/bin/python -c 'import pyrepseq; print(pyrepseq.__file__)'", cwd=wt).stdout.strip()
assert where.startswith(wt), where
missing = suite()
rc_with = demo()
sh(f"git -C {wt} apply -R {seed}/patch.diff")
rc_without = demo()
sh(f"git -C {wt} apply {seed}/patch.diff")
assert sh(f"git -C {wt} diff -- pyrepseq").stdout == diff
log = f"/tmp/wt/_seed_{name}.{tier}.log"
p = subprocess.run(f"cd /verif && PV_REPO={wt} timeout 3000 ./check {pid} --tier {tier} > {log} 2>&1", shell=True)
txt = open(log).read()
keys = [l.strip() for l in txt.splitlines() if l.strip().startswith("violation key")]
nviol = sum(1 for l in txt.splitlines() if l.startswith("VIOLATION"))
meta = json.load(open(f"{seed}/meta.json")) if os.path.exists(f"{seed}/meta.json") else {}
meta.update(dict(
    property=pid,
    confirmed=dict(suite_stable_pass_missing=missing, demo_exit_with_change=rc_with, demo_exit_without_change=rc_without,
                   ran=[f"cd {wt} && PYTHONPATH={wt} /venv/bin/python -m pytest ... (stable_pass list of BASELINE.json compared)",
                        f"PYTHONPATH={wt} /venv/bin/python _seed/demo.py (with and without the patch)",
                        f"PV_REPO={wt} ./check {pid} --tier {tier}   (same as: git -C /repo apply patch.diff; ./check {pid}; git -C /repo checkout -- .)"]),
    check=dict(tier=tier, exit=p.returncode, violation_lines=nviol, keys=keys[:12]),
    detected=(p.returncode == 1 and nviol > 0),
))
ok = (not missing) and rc_with != 0 and rc_without == 0
meta["valid_seed"] = ok
d = f"/verif/seeded/{dest}"
os.makedirs(d, exist_ok=True)
if os.path.exists(f"{d}/meta.json"):
    old = json.load(open(f"{d}/meta.json"))
    if "first_result" in old:
        meta["first_result"] = old["first_result"]
shutil.copy(f"{seed}/patch.diff", d)
shutil.copy(f"{seed}/demo.py", d)
json.dump(meta, open(f"{d}/meta.json", "w"), indent=1)
print(json.dumps(dict(valid_seed=ok, missing=missing, demo_with=rc_with, demo_without=rc_without, check_exit=p.returncode, violations=nviol, keys=keys[:6]), indent=1))
