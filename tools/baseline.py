#!/usr/bin/env python3
"""Runs the repository's pinned suite with the guard OFF and compares with BASELINE.json's stable_pass list."""
import json, os, subprocess, sys, tempfile, xml.etree.ElementTree as ET
base = json.load(open("/root/.vp/BASELINE.json"))
out = tempfile.mktemp(suffix=".junit.xml")
env = dict(os.environ); env.pop("ANDIM_PYREPSEQ_VERIF", None)
p = subprocess.run(f"cd /repo && /venv/bin/python -m pytest -ra -q -p no:cacheprovider --timeout=900 --continue-on-collection-errors --junitxml={out}",
                   shell=True, env=env, stdout=subprocess.PIPE, stderr=subprocess.STDOUT, text=True)
passed = set()
for tc in ET.parse(out).getroot().iter("testcase"):
    if not any(ch.tag in ("failure", "error", "skipped") for ch in tc):
        passed.add(f"{tc.get('classname')}::{tc.get('name')}")
os.remove(out)
missing = [t for t in base["stable_pass"] if t not in passed]
print(f"passed={len(passed)} stable_pass={len(base['stable_pass'])} missing={missing}")
sys.exit(1 if missing else 0)
