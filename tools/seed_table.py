#!/usr/bin/env python3
"""Rewrites section 9.6 of DESIGN.md from seeded/*/meta.json."""
import glob, json, os, re
ROOT = os.path.dirname(os.path.dirname(os.path.abspath(__file__)))
rows = []
for d in sorted(glob.glob(os.path.join(ROOT, "seeded", "*"))):
    mp = os.path.join(d, "meta.json")
    if not os.path.exists(mp):
        continue
    m = json.load(open(mp))
    name = os.path.basename(d)
    keys = "; ".join(k.replace("violation key ", "").rsplit(":", 1)[0] for k in m.get("check", {}).get("keys", [])[:3])
    first = m.get("first_result", "")
    rows.append(f"| `{name}` | {m['property']} | {m.get('summary', '').replace('|', '/')[:230]} | {m.get('needs', '').replace('|', '/')[:200]} | "
                + (f"no longer a violation: {m['superseded']} | {first} |" if m.get("superseded") else
                   f"{'caught' if m.get('detected') else 'MISSED'} ({m.get('check', {}).get('tier', '')}): {keys[:160]} | {first} |"))
table = ("### 9.6 Seeded changes (sub-agents saw only the property text and a scratch worktree)\n\n"
         "Every change below was confirmed independently (`tools/confirm_seed.py`): the pinned suite still passes with it (stable_pass list\n"
         "unchanged), the sub-agent's demonstration exits 1 with it and 0 without it (seeds marked 'no longer a violation' were valid when they\n"
         "arrived and were neutralised by a later `fix:` commit in the library: their demonstration exits 0 on the repaired tree, and so does the check). `check` = result of `./check <ID> --tier quick` against the\n"
         "changed tree *after* the strengthening described in the last column (\"first result\" = what the check did when the change first arrived).\n\n"
         "| seed | property | change | needs | check now | first result / strengthening |\n|---|---|---|---|---|---|\n" + "\n".join(rows) + "\n\n")
p = os.path.join(ROOT, "DESIGN.md")
s = open(p).read()
if "### 9.6 Seeded changes" in s:
    a = s.index("### 9.6 Seeded changes")
    b = s.index("## Appendix A")
    s = s[:a] + table + s[b:]
else:
    s = s.replace("## Appendix A", table + "## Appendix A", 1)
open(p, "w").write(s)
print(len(rows), "seeds in the table")
