#!/usr/bin/env python3
"""Regenerates /verif/MANIFEST.json from the table below (single source of truth for the interface)."""
import json
import os

ROOT = os.path.dirname(os.path.dirname(os.path.abspath(__file__)))

BASELINE = ("cd /repo && env -u ANDIM_PYREPSEQ_VERIF /venv/bin/python -m pytest -ra -q -p no:cacheprovider --timeout=900 "
            "--continue-on-collection-errors --junitxml=/tmp/pyrepseq_baseline.junit.xml")

# id -> (design_ref, level text, level note, technique)
CHECKS = {
    "C01": ("DESIGN.md 4/C01",
            "NNSearch.tla (symdel machine: CheckInput, SdBuild*, SdSelfJoin, MakeOutput) is model-checked by TLC for every "
            "list of strings within small bounds against the reference Truth (fold-based Levenshtein), invariants Exact, "
            "NoRepeat, NoSelf, Symmetric, SymDelLemma, IndexIsVariants, DenseExact; every terminal behaviour is replayed on "
            "nearest_neighbor/symdel under several alphabets, and recorded sessions on all-strings universes and random "
            "CDR3-like repertoires are validated event by event by TraceNN.tla (which re-steps the machine and evaluates the "
            "invariants on each recorded state).",
            "Trusted: TLC/SANY, the TLA+ reference operators in Strings.tla, the harness encoders. Bounded: exhaustive only within "
            "the TLC constants; larger inputs by sampled traces.",
            "TLA+ model checking (TLC) + spec-to-code replay + trace validation"),
    "C02": ("DESIGN.md 4/C02",
            "Coincidence.tla (Convert: cell-wise row serialisation with a separator, CountUnique, Combine; exact rationals of Rational.tla) "
            "is model-checked for every multiplicity pattern up to a size bound, all pairs of small samples and all small tables with "
            "missing cells (PcExact, InUnitInterval, MultisetOnly, JoinInjective; mutants N^2 denominator and dropped separator rejected). "
            "Every terminal behaviour is executed on pc, pc_n, pc_joint under several value types / table layouts / the legacy tuple form; "
            "random Zipf samples and tables are validated by TraceCoincidence.tla.",
            "Trusted: TLC, Rational.tla; floats snapped to rationals (denominators of the true values <= 1640 << 1e6).",
            "TLA+ model checking (TLC) + spec-to-code replay + trace validation"),
    "C03": ("DESIGN.md 4/C03",
            "NNSearch.tla with a second collection (SdBuild*, SdLookup / HbBuild, HbLookup, MakeOutput, NewLookup for repeated "
            "queries against one built index) is model-checked for all small reference/query lists (invariants Exact, NoRepeat, "
            "DenseExact, BallExact; action property IndexStableA); every terminal behaviour is replayed on symdel(seqs2=..), "
            "nearest_neighbor(seqs2=..), SymdelDB.lookup and LookupDB.lookup, behaviours sharing a reference are replayed as one "
            "history on a single database object with the index snapshotted around each lookup; recorded one-shot and database "
            "sessions on repertoire-like data are validated by TraceNN.tla.",
            "Trusted: TLC, Strings.tla reference distance, harness encoders. hash engine traces restricted to a 6-letter sub-alphabet "
            "(edit ball enumerable in TLC). Bounded exhaustive part: see evidence tlc_runs constants.",
            "TLA+ model checking (TLC) + spec-to-code replay of behaviours/histories + trace validation"),
    "C04": ("DESIGN.md 4/C04",
            "NNSearch.tla models hash_based (HbBuild, breadth-first edit ball with first-seen level, dictionary probe) and kdtree "
            "(composition vectors with compression bins, ball of squared radius 2k^2, exact filter); TLC checks Exact, NoRepeat, NoSelf, "
            "Symmetric, CompositionLemma, BallExact, DenseExact for all lists over 3-letter sub-alphabets straddling the bins; every terminal "
            "behaviour is replayed on hash_based/kdtree; recorded sessions on random repertoires and radius-boundary pairs x^k/y^k "
            "(where the float radius sqrt(2)k could round down) are validated by TraceNN.tla.",
            "Trusted: TLC, Strings.tla. The float radius is outside the model: covered by boundary sessions k<=20 only.",
            "TLA+ model checking (TLC) + spec-to-code replay + trace validation"),
    "C05": ("DESIGN.md 4/C05",
            "PcDelta.tla: ShortCircuit (bins = 0 -> pc), Downsample (nondeterministic sub-collection), ChooseMetric (default-metric table), "
            "Distances (one per unordered pair / full cross), Histogram (NumPy bin convention), Normalise (pseudocount arithmetic); TLC checks "
            "CountsExact, ZeroBin, SampleSize, NormalisedSumsToOne, DefaultMetricTable for all small collections of strings and TCR rows, edge "
            "vectors, pseudocounts and maxseqs; mutants (full square matrix, swapped alpha/beta default) are rejected. Every terminal behaviour "
            "is executed on pcDelta (maxseqs: the result under several seeds must be one of the enumerated outcomes); random repertoires / "
            "tables, sample-size sessions and load_pcDelta_background are validated by TracePcDelta.tla.",
            "Trusted: TLC, Strings.tla, Rational.tla; TCR rows modelled by their CDR3 strings; down-sampling beyond the bounds only through the pair-count clause.",
            "TLA+ model checking (TLC) + spec-to-code replay (incl. nondeterministic outcomes) + trace validation"),
    "C06": ("DESIGN.md 4/C06",
            "Estimators.tla reduces 'E[pc_n] = sum p^2 for all p' (and the two-sample and variance claims) to one exact identity per count "
            "vector (coefficients of p^n of a homogeneous polynomial identity); TLC checks MeanUnbiased / CrossUnbiased / VarUnbiased for every "
            "count vector within the bounds in exact rationals (a changed coefficient of varpc_n is rejected). VarPcN is the transcription of "
            "varpc_n: every enumerated vector is executed on pc_n, pc, varpc_n, stdpc_n, stdpc and compared with the spec's rationals; larger "
            "sampled vectors are evaluated by TLC on harness-chosen inputs.",
            "Trusted: TLC, Rational.tla, the transcription VarPcN (bound to the code value-by-value). Unbiasedness itself is established only for N, K within the bounds (32-bit rationals).",
            "TLA+ model checking of exact coefficient identities (TLC) + spec-to-code replay"),
    "C07": ("DESIGN.md 4/C07",
            "NNSearch.tla in Hamming mode (HamInf = infinity for unequal lengths; kdtree per-length buckets keep original positions) "
            "is model-checked for all small lists with every interleaving of lengths and all three engines plus the two-collection "
            "forms; every terminal behaviour is replayed on the real functions; mixed-length repertoires validated by TraceNN.tla; the "
            "as-found model (bucket-local positions) must be rejected by TLC.",
            "Trusted: TLC, Strings.tla.",
            "TLA+ model checking (TLC) + spec-to-code replay + trace validation"),
    "C08": ("DESIGN.md 4/C08",
            "Metrics.tla: Cdist, SelfCdist + Squareform and LoopPdist machines over the reference weighted edit distance; TLC checks CdistExact, "
            "PdistLayout, CondBijection (m <= 12), the metric facts (identity, reversal swaps ins/del, triangle inequality, unit weights = "
            "Levenshtein) and closed forms for the a^n/b^m families; mutants (swapped ins/del weights, transposed squareform) are rejected. "
            "Every terminal behaviour is executed on Levenshtein, WeightedLevenshtein, pdist, cdist (callable + forwarded kwargs, three "
            "containers); medium-length random strings and strings up to 400 letters are validated by TraceMetrics.tla.",
            "Trusted: TLC, Strings.tla; long strings only through closed forms validated against the DP for n, m <= 5.",
            "TLA+ model checking (TLC) + spec-to-code replay + trace validation"),
    "C09": ("DESIGN.md 4/C09",
            "TcrMetric.tla (Validate, ExpandV, one ColumnCdist per column in scope with chain / loop weights selected from the column name, sum) "
            "is model-checked over rows built from real V alleles (CDR1/CDR2 handed over as data; one allele without CDR2), small CDR3 sets, "
            "all six classes and prime-valued weights (CdistIsWeightedSum, Decomposition, WeightTable, RejectIffNotTable, InputsUnchanged; "
            "swapped chain weights rejected). Every terminal behaviour is executed on the real classes (default / permuted / duplicated / "
            "string index, extra columns, the four invalid-input classes); random tables (cdist, pdist) are validated by TraceTcrMetric.tla.",
            "Trusted: TLC, Strings.tla; the V-allele -> CDR1/CDR2 map is tidytcells data read independently by the harness.",
            "TLA+ model checking (TLC) + spec-to-code replay + trace validation"),
    "C10": ("DESIGN.md 4/C10",
            "MakeOutput of NNSearch.tla models COO accumulation as a sum (invariant DenseExact); InputCheck.tla models the argument "
            "guard sequence (invariant RejectedIffInvalid, action property ErrorIsFinal). Every terminal behaviour of small NNSearch models "
            "is executed under 7 container kinds x 3 output types, every argument-class vector of InputCheck on the four public search "
            "functions; recorded sessions with random container/output variants validated by TraceNN.tla.",
            "Trusted: TLC; 'rejected' = any exception. Argument classes not named by the property are not judged.",
            "TLA+ model checking (TLC) + spec-to-code replay over container/output variants + trace validation"),
    "C13": ("DESIGN.md 4/C13",
            "Grouped.tla (FilterSingletons, GroupApply, Assemble over the reference pc / pcDelta) is model-checked for all small tables with 1-2 "
            "grouping columns, unsorted keys, singleton groups, joint features and weights (ConditionalIsWeightedMean, SingleGroup, InUnit, "
            "CrossSymmetric, CrossDiagonal; two mutants rejected). Every terminal behaviour is executed on pc_conditional, pc_grouped_cross, "
            "pcDelta_grouped, pcDelta_grouped_cross and renyi2_entropy; stdrenyi2_entropy is compared with VarPcN evaluated by TLC.",
            "Trusted: TLC; the logarithm is harness-side (base^(-H) compared with the spec's pc). Single-group tables are not judged for the cross-group functions; the square form only for bins=0.",
            "TLA+ model checking (TLC) + spec-to-code replay"),
    "C14": ("DESIGN.md 4/C14",
            "NNSearch.tla in custom-distance mode (six distance families in exact quarters, both radii) is model-checked for the three "
            "engines and the two-collection forms; TcrNN.tla models nearest_neighbor_tcrdist as EditCandidates/LookupV/Cdr3Dist/SumFilter "
            "(invariants ResultExact, ResultSymmetric, OnlyRadii). Behaviours are replayed on the real engines; nearest_neighbor_tcrdist "
            "sessions (tables over bundled V alleles, chains, trimming options, shifted index) and the two bundled V tables are validated "
            "by TraceTcr.tla with V distances and CDR3 distances supplied independently by the harness.",
            "Trusted: TLC; the vendored pwseqdist stand-in (harness/standins) replaces the absent optional dependency.",
            "TLA+ model checking (TLC) + spec-to-code replay + trace validation"),
    "C11": ("DESIGN.md 4/C11",
            "KdPool.tla models _to_triplets (SetParams, Fork with per-worker copy of the parameter block, Take, Finish, Assemble, "
            "SerialMap, Close; two consecutive calls); TLC explores every interleaving for <=5 tasks x <=4 workers (ResultIsSerial, "
            "AllResultsSerial, NoStaleParams, NoError, ChunksPartition, SlotsOnce) and rejects three deviations (chunk size 0, fork before "
            "SetParams, unordered assembly). Every complete schedule emitted by TLC is executed on the real kdtree through SpecDrivenPool; "
            "a sweep over n x n_cpu (incl. n_cpu > n) x compression x mode compares with the serial uncompressed run; real multiprocessing "
            "runs are recorded per process and validated by TraceKdPool.tla; max_returns sessions are judged by TraceNN.tla (JoinLimited).",
            "Trusted: TLC; SpecDrivenPool's model of multiprocessing.Pool (fork-time snapshot, map in chunk order). Real pools only for a handful of configurations (fork cost).",
            "TLA+ model checking of all pool schedules (TLC) + schedule replay through the real code + trace validation of real multi-process runs"),
    "C12": ("DESIGN.md 4/C12",
            "Neighborhood.tla: levenshtein_neighbors / hamming_neighbors as loop machines (one action per loop iteration, the three "
            "duplicate-suppression rules as skip branches), nndist_hamming's cascade, next_nearest_neighbors and the pair utilities; TLC "
            "checks GenExact, GenOnce, HGenExact, NbrIsDist1, NndExact, NnnExact, UtilExact for all strings up to a length bound on 1-4 "
            "letter alphabets and all small reference sets, and rejects three skip-rule mutants. Every terminal behaviour is replayed on "
            "the real functions under several concrete alphabets; sessions with the default 20-letter alphabet are validated by "
            "TraceNeighborhood.tla (which steps the loop machine and compares the yields).",
            "Trusted: TLC, Strings.tla. On 20 letters the comparison is with the constructive neighbourhood sets, shown equal to "
            "{y : Lev(x,y)=1} only on the small universes.",
            "TLA+ model checking (TLC) + spec-to-code replay + trace validation"),
    "C15": ("DESIGN.md 4/C15",
            "Clustering.tla: connected components by label propagation (Propagate, DropSingles) and single-linkage agglomeration with "
            "nondeterministic tie-breaking (Merge, Stop); TLC checks LabelsAreComponents, ReportedNonSingletons, SingleLinkageIsComponents "
            "(every tie-breaking ends in the components of the threshold graph), PartitionOK, MergeMonotone for every graph on <= 5 nodes and "
            "every small distance matrix. Every terminal behaviour is executed on graph_clustering('cc') and hierarchical_clustering(single); "
            "neighbour lists from the real search, community methods (refinement) and hierarchical clustering of strings / TCR tables are "
            "validated by TraceClustering.tla (distances recomputed by TLC), other linkage methods against SciPy on the spec-checked vector.",
            "Trusted: TLC; igraph community detection and SciPy non-single linkage (only refinement / equality on the spec's distances is checked).",
            "TLA+ model checking (TLC) + spec-to-code replay + trace validation"),
    "C16": ("DESIGN.md 4/C16",
            "Estimators.tla gives chao1, chao2, the classical Chao variance and the set-overlap measures as exact rationals with NaN as a value; "
            "TLC checks ChaoNotBelowObserved, VarChaoExpanded, OverlapSymmetric for all small frequency-of-frequency vectors and all pairs of "
            "small collections with missing values (the as-found variance formula is rejected). Every enumerated case is executed on the seven "
            "functions as list / ndarray / set / Series ('does not raise' is a clause); sampled larger inputs are evaluated by TLC.",
            "Trusted: TLC, Rational.tla. jaccard_index judged with missing values in Series only and non-empty unions (documented behaviour).",
            "TLA+ model checking (TLC) + spec-to-code replay"),
    "C17": ("DESIGN.md 4/C17",
            "Resample.tla: subsample as a machine drawing individual items without replacement (Refuse, Begin, Draw(i), Recount), downsample "
            "as a nondeterministic choice of positions; TLC checks SubsampleOK, NeverOverdraw, DownsampleOK for all small count vectors and n "
            "and rejects the with-replacement mutant; it also yields each outcome's exact weight prod C(c_i, k_i). Every (counts, n) is executed "
            "under several seeds (each outcome must be a terminal state TLC enumerated), uniformity is judged by chi-square against the "
            "model's weights; subsample / downsample / powerlaw_sample sessions and the inclusion rule of powerlaw_mle_alpha are validated by "
            "TraceResample.tla; ln-based closed forms and the optimiser are checked numerically on the spec-selected multiset.",
            "Trusted: TLC. Statistical judgement (false alarm 1e-9), logarithms and the bounded optimiser are harness side (DESIGN.md section 6).",
            "TLA+ model checking (TLC) + spec-to-code replay of nondeterministic outcomes + trace validation"),
    "C18": ("DESIGN.md 4/C18",
            "Cleaning.tla: isvalidaa / isvalidcdr3 over object classes (Judge), standardize_dataframe as Copy, Rename, one MapColumn per standard "
            "column with the per-cell standardiser supplied as data, multimerge as a reduce of joins (MergeStart, MergeNext); TLC checks "
            "CellLocal, MissingStaysMissing, ExtraColumnsKept, InputUnchanged, MergeIsJoin over all small tables / key sets / strings and rejects "
            "a standardiser applied to missing cells. Every terminal behaviour is executed on the real functions (several concrete objects per "
            "class, index variants, option sets, how / suffixes / index-or-column keys).",
            "Trusted: TLC; tidytcells as per-cell oracle (called by the harness on each single cell). multimerge with unique keys.",
            "TLA+ model checking (TLC) + spec-to-code replay"),
    "C19": ("DESIGN.md 4/C19",
            "Summaries.tla: per-position count matrix (CountColumn), regular expression built from it (RegexColumn), rankfrequency (RankData) and "
            "discrete density scatter (UniquePoints) are model-checked for all small aligned inputs with gaps, count vectors with missing values "
            "and point sets (RegexIsProductLanguage, RegexMatchesInputs, CountsExact, RankDescending, ScatterOnce). Every terminal behaviour is "
            "executed headless: the regex is matched against all strings up to the length bound; consensus, logo counts, Line2D data, scatter "
            "offsets / colour array are read back. Colour assignments, rankfrequency on larger vectors and similarity_clustermap (split heat map "
            "in dendrogram order, distances recomputed by TLC; linkage / clusters = SciPy on the spec-checked vector) are validated by TraceSummaries.tla.",
            "Trusted: TLC; matplotlib / seaborn / logomaker rendering (only artist data are read back); SciPy linkage.",
            "TLA+ model checking (TLC) + spec-to-code replay + trace validation of recorded artist data"),
    "C20": ("DESIGN.md 4/C20",
            "Session.tla: histories of public calls over an abstract catalogue (classes by read / write set on the module state: owner of the "
            "parameter block, dict-valued defaults, NumPy generator state); TLC checks HistoryIndependence, DefaultsIntact, ArgsUntouched for all "
            "histories within the bound and rejects the as-found colour-bar tick leak and two seeded deviations. Every history TLC emits is "
            "executed in one interpreter with about 100 concrete catalogue calls from every module: arguments deep-compared with snapshots, "
            "defaults / parameter block projected and compared with the model's mod, canonicalised result compared with the same call alone in a "
            "fresh process; the recorded session is validated by TraceSession.tla.",
            "Trusted: TLC; the canonicaliser (floats to 9 significant digits, figures to artist data); one representative argument set per catalogue entry.",
            "TLA+ model checking of call histories (TLC) + replay of histories into one interpreter against fresh-process results + trace validation"),
}

NOT_YET = {
}


def main():
    props = [json.loads(l) for l in open(os.path.join(ROOT, "properties.jsonl"))]
    checks = []
    na = []
    for p in props:
        pid = p["id"]
        if pid in CHECKS:
            ref, text, note, tech = CHECKS[pid]
            checks.append(dict(
                property_id=pid,
                quick_cmd=f"./check {pid} --tier quick",
                thorough_cmd=f"./check {pid} --tier thorough",
                evidence_file=f"/verif/evidence/{pid}.json",
                replay_cmd_template=f"./check {pid} --replay {{path}}",
                engine="tlc",
                level_claimed=dict(category="model_checking", text=text, design_ref=ref),
                level_note=note,
                technique=tech,
            ))
        else:
            na.append(dict(property_id=pid, reason=NOT_YET.get(pid, "check not built yet in this session (planned: TLA+ model + conformance, see DESIGN.md section 4)")))
    man = dict(
        version=1,
        setup_cmd="./setup.sh",
        hooks=dict(
            guard="ANDIM_PYREPSEQ_VERIF",
            enable="no source hooks: checks import pyrepseq from /repo's working tree with ANDIM_PYREPSEQ_VERIF=1 and wrap public "
                   "functions harness-side (pv/nncommon.py, pv/pool.py)",
            baseline_off_cmd=BASELINE,
            source_commits=[],
            add_only=True,
        ),
        engines=[dict(name="tlc", path="/opt/veriftools/tla/tla2tools.jar", serves_properties=sorted(CHECKS),
                      kind_free_text="TLC 1.8 explicit-state model checker over /verif/spec/*.tla; trace validation and "
                                     "behaviour generation through the Json/IOUtils community modules; Python harness in /verif/harness/pv")],
        checks=checks,
        notes="One TLA+ specification (spec/*.tla). Each check = TLC model checking of the relevant machine + replay of TLC-generated "
              "behaviours into the real code + TLC validation of traces recorded from the real code. Exit 0 ok / 1 VIOLATION / 2 machinery failure.",
        not_applicable=na,
    )
    with open(os.path.join(ROOT, "MANIFEST.json"), "w") as f:
        json.dump(man, f, indent=1)
    print("MANIFEST.json:", len(checks), "checks,", len(na), "not claimed")


if __name__ == "__main__":
    main()
