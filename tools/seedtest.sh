#!/bin/sh
# tools/seedtest.sh <ID> <worktree> [tier]  - run one check against a scratch worktree holding a seeded change
# (equivalent to `git -C /repo apply patch && ./check ID && git -C /repo checkout -- .`, without touching /repo while
#  background runs use it). Evidence / replay files of such runs go to /tmp/pv_other_tree/<worktree>/.
ID="$1"; WT="$2"; TIER="${3:-quick}"
cd "$(dirname "$0")/.."
PV_REPO="$WT" timeout 3000 ./check "$ID" --tier "$TIER" > "/tmp/wt/_seed_$ID.$TIER.log" 2>&1
rc=$?
grep -c "^VIOLATION" "/tmp/wt/_seed_$ID.$TIER.log" | sed "s/^/violations: /"
grep "violation key\|MACHINERY\|^\[$ID\]" "/tmp/wt/_seed_$ID.$TIER.log" | head -12
echo "exit=$rc"
