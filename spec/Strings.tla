------------------------------ MODULE Strings ------------------------------
(***************************************************************************)
(* Reference semantics of everything pyrepseq says about strings.          *)
(*                                                                         *)
(* A string is a sequence of small naturals (letter codes).  For engine    *)
(* properties restricted to amino acids the code of a letter is its index  *)
(* in "ACDEFGHIKLMNPQRSTVWY" (0..19), so that kdtree's compression bins    *)
(* (index \div c) are meaningful.                                          *)
(*                                                                         *)
(* All dynamic programming is written with FoldLeft over concrete rows:    *)
(* TLC evaluates operator arguments by name, and a textbook recursive      *)
(* definition re-evaluates sub-terms exponentially.                        *)
(***************************************************************************)
EXTENDS Naturals, Integers, Sequences, FiniteSets, SequencesExt, FiniteSetsExt, Functions, TLC

Min2(a, b) == IF a < b THEN a ELSE b
Max2(a, b) == IF a > b THEN a ELSE b
Min3(a, b, c) == Min2(a, Min2(b, c))
Abs(x) == IF x < 0 THEN -x ELSE x

Inf == 1000000          \* "infinite" distance (np.inf in the code)

(***************************************************************************)
(* With(v, F) = F(v) with v evaluated exactly ONCE.  TLC evaluates LET     *)
(* definitions and operator arguments by name: inside actions and state    *)
(* predicates every reference re-evaluates the expression.  A bound        *)
(* variable of a set constructor holds a value, hence this idiom wherever  *)
(* an expensive value is used more than once.                              *)
(***************************************************************************)
With(v, F(_)) == CHOOSE r \in { F(x) : x \in {v} } : TRUE

AllStringsOfLen(A, n) == [1..n -> 0..(A-1)]
AllStrings(A, L) == UNION { AllStringsOfLen(A, n) : n \in 0..L }

Iota(n) == [j \in 1..n |-> j]

(***************************************************************************)
(* Weighted Levenshtein distance: minimum total weight of insertions (wi), *)
(* deletions (wd) and substitutions (ws) that turn a into b.               *)
(* row[j+1] = cost of turning the consumed prefix of a into b[1..j].       *)
(***************************************************************************)
WLevRow0(b, wi) == [j \in 1..(Len(b)+1) |-> (j-1) * wi]

WLevStep(b, wi, wd, ws, prev, ai) ==
    LET ext(acc, j) ==
            Append(acc, Min3(prev[j+1] + wd,
                             acc[j] + wi,
                             prev[j] + (IF ai = b[j] THEN 0 ELSE ws)))
    IN FoldLeft(ext, <<prev[1] + wd>>, Iota(Len(b)))

WLev(a, b, wi, wd, ws) ==
    LET step(prev, ai) == WLevStep(b, wi, wd, ws, prev, ai)
    IN FoldLeft(step, WLevRow0(b, wi), a)[Len(b)+1]

Lev(a, b) == WLev(a, b, 1, 1, 1)

(***************************************************************************)
(* Is Lev(a,b) <= k ?  Cheap necessary test first (length difference).     *)
(***************************************************************************)
LevLeq(a, b, k) == Abs(Len(a) - Len(b)) <= k /\ Lev(a, b) <= k

(* Hamming distance on equal-length strings; Inf otherwise (the code's     *)
(* _hamming_replacement).                                                   *)
Ham(a, b) == Cardinality({i \in 1..Len(a) : a[i] # b[i]})
HamInf(a, b) == IF Len(a) # Len(b) THEN Inf ELSE Ham(a, b)

(***************************************************************************)
(* Deletion variants, written like _comb_gen: for every set of at most k   *)
(* positions, the string with those positions removed.                     *)
(***************************************************************************)
RemoveIdx(s, I) == LET keep == SetToSortSeq({i \in 1..Len(s) : i \notin I}, <)
                   IN [j \in 1..Len(keep) |-> s[keep[j]]]

DelVariants(s, k) ==
    { RemoveIdx(s, I) : I \in UNION { kSubset(e, 1..Len(s)) : e \in 0..Min2(k, Len(s)) } }

(***************************************************************************)
(* One-edit neighbourhood, constructively (as three sets) ...              *)
(***************************************************************************)
DelAt(x, i) == [j \in 1..(Len(x)-1) |-> IF j < i THEN x[j] ELSE x[j+1]]
SubAt(x, i, a) == [x EXCEPT ![i] = a]
InsAt(x, i, a) == [j \in 1..(Len(x)+1) |-> IF j < i THEN x[j] ELSE IF j = i THEN a ELSE x[j-1]]
                  \* inserts a so that it becomes the i-th letter, i in 1..Len(x)+1

Dels(x) == { DelAt(x, i) : i \in 1..Len(x) }
Subs(x, Alpha) == { SubAt(x, i, a) : i \in 1..Len(x), a \in Alpha } \ {x}
Inss(x, Alpha) == { InsAt(x, i, a) : i \in 1..(Len(x)+1), a \in Alpha }
OneEditC(x, Alpha) == Dels(x) \cup Subs(x, Alpha) \cup Inss(x, Alpha)
HamOne(x, Alpha, Pos) == { SubAt(x, i, a) : i \in Pos, a \in Alpha } \ {x}

(* ... and declaratively, over the universe of strings on 0..A-1            *)
OneEditD(x, A) == { y \in AllStrings(A, Len(x)+1) : Lev(x, y) = 1 }

(* Ball of radius d around x by iterated neighbourhood (constructive)       *)
RECURSIVE BallC(_, _, _)
BallC(S, Alpha, d) == IF d = 0 THEN S
                      ELSE BallC(S \cup UNION { OneEditC(y, Alpha) : y \in S }, Alpha, d-1)
RECURSIVE HamBallC(_, _, _)
HamBallC(S, Alpha, d) == IF d = 0 THEN S
                      ELSE HamBallC(S \cup UNION { HamOne(y, Alpha, 1..Len(y)) : y \in S }, Alpha, d-1)

(***************************************************************************)
(* Composition vector with compression c over an alphabet of NA letters    *)
(* (kdtree's _histogram_encode): bin of letter code a is a \div c.         *)
(***************************************************************************)
CeilDiv(a, b) == (a + b - 1) \div b
Compo(s, NA, c) == [d \in 0..(CeilDiv(NA, c)-1) |-> Cardinality({i \in 1..Len(s) : s[i] \div c = d})]
SqDist(u, v) == LET f(acc, d) == acc + (u[d] - v[d]) * (u[d] - v[d])
                IN FoldLeft(f, 0, SetToSortSeq(DOMAIN u, <))

=============================================================================
