------------------------------ MODULE Cleaning ------------------------------
(***************************************************************************)
(* Input cleaning (pyrepseq/io.py) - property C18.  Three machines         *)
(* (variable kind):                                                        *)
(*                                                                         *)
(*  "pred"   isvalidaa / isvalidcdr3 as total predicates over classes of   *)
(*           Python objects                                                *)
(*  "std"    standardize_dataframe:  Copy, Rename (col_mapper), one        *)
(*           MapColumn per standard column in the order of the code        *)
(*           (per chain: CDR3, V, J, MHC; then Epitope).  A cell is an     *)
(*           abstract id, 0 = missing.  What the third-party standardiser  *)
(*           returns for one cell is DATA (StdTable, filled by the harness *)
(*           by calling tidytcells on that single cell): the specification *)
(*           decides that cells are transformed independently, missing     *)
(*           stays missing, everything else is preserved.                  *)
(*  "merge"  multimerge: reduce over pandas.merge = relational join of the *)
(*           tables on the key, outer by default, per-table suffixes        *)
(***************************************************************************)
EXTENDS Naturals, Sequences, FiniteSets, SequencesExt, FiniteSetsExt, TLC, Json, IOUtils

\* StdTable[k][id] = id of what the standardiser of the k-th standard column (order of StdOrder) returns for cell id (0 = None)
StdTable == JsonDeserialize(IOEnv.PV_STDFN)

CONSTANTS MaxLen, Chars,          \* pred: strings over Chars up to MaxLen
          MaxRows, ColSets, CellIds,  \* std: tables with <= MaxRows rows over each column set; cell ids
          MaxTables, KeyVals,     \* merge: 2..MaxTables tables over subsets of KeyVals
          Kinds, Mutations

VARIABLES kind, obj, tab, cols, opts, out, outcols, pending, step
vars == <<kind, obj, tab, cols, opts, out, outcols, pending, step>>

(***************************************************************************)
(* predicates.  Character codes: 0..19 amino acids in the order            *)
(* ACDEFGHIKLMNPQRSTVWY (C = 1, F = 4, W = 18); >= 20: any other character *)
(***************************************************************************)
IsAA(s) == \A i \in 1..Len(s) : s[i] \in 0..19
IsCdr3(s) == IsAA(s) /\ Len(s) > 0 /\ s[1] = 1 /\ s[Len(s)] \in {4, 18, 1}
\* expected answer: "T", "F" or "bool" (any boolean, but no exception) for objects the property does not pin down
ExpectAA(o) == CASE o.class = "str" -> (IF IsAA(o.s) THEN "T" ELSE "F")
                 [] o.class \in {"missing", "number"} -> "F"
                 [] OTHER -> "bool"
ExpectCdr3(o) == CASE o.class = "str" -> (IF IsCdr3(o.s) THEN "T" ELSE "F")
                   [] o.class \in {"missing", "number"} -> "F"
                   [] OTHER -> "bool"
Objects == { [class |-> "str", s |-> s] : s \in UNION { [1..n -> Chars] : n \in 0..MaxLen } }
           \cup { [class |-> c, s |-> <<>>] : c \in {"missing", "number", "container", "bytes"} }

(***************************************************************************)
(* standardize_dataframe                                                   *)
(***************************************************************************)
StdOrder == <<"CDR3A", "TRAV", "TRAJ", "MHCA", "CDR3B", "TRBV", "TRBJ", "MHCB", "Epitope">>
\* a column is [name, old]: old = TRUE means it is currently called "old_<name>" (not a standard name) and col_mapper,
\* when given, renames it to <name>
KindOf(c) == IF c.old \/ ~(\E i \in 1..Len(StdOrder) : StdOrder[i] = c.name) THEN 0
             ELSE CHOOSE i \in 1..Len(StdOrder) : StdOrder[i] = c.name
StdCell(c, id) == IF id = 0 \/ KindOf(c) = 0 THEN id ELSE StdTable[KindOf(c)][id]
Renamed(c, mapper) == IF mapper /\ c.old THEN [c EXCEPT !.old = FALSE] ELSE c

(***************************************************************************)
(* multimerge: a table is a function key -> value (unique keys)            *)
(***************************************************************************)
MergeTables == UNION { [1..n -> UNION { [K -> {7}] : K \in SUBSET KeyVals }] : n \in 2..MaxTables }
JoinKeys(ts, how) == CASE how = "outer" -> UNION { DOMAIN ts[i] : i \in 1..Len(ts) }
                       [] how = "left" -> DOMAIN ts[1]                      \* every key of the first table, whatever the others hold
                       [] OTHER -> { k \in DOMAIN ts[1] : \A i \in 1..Len(ts) : k \in DOMAIN ts[i] }
JoinRow(ts, k) == [i \in 1..Len(ts) |-> IF k \in DOMAIN ts[i] THEN ts[i][k] ELSE 0]
Join(ts, how) == [k \in JoinKeys(ts, how) |-> JoinRow(ts, k)]

Init == /\ kind \in Kinds
        /\ obj \in (IF kind = "pred" THEN Objects ELSE {[class |-> "none", s |-> <<>>]})
        /\ cols \in (IF kind = "std" THEN ColSets ELSE {<<>>})
        /\ tab \in (CASE kind = "std" -> UNION { [1..r -> [1..Len(cols) -> CellIds \cup {0}]] : r \in 0..MaxRows }
                      [] kind = "merge" -> MergeTables
                      [] OTHER -> {<<>>})
        /\ opts \in (CASE kind = "std" -> { [standardize |-> sd, mapper |-> mp] : sd \in BOOLEAN, mp \in BOOLEAN }
                       [] kind = "merge" -> { [how |-> h, suffixes |-> sf, onindex |-> oi] : h \in {"outer", "inner", "left"}, sf \in BOOLEAN, oi \in BOOLEAN }
                       [] OTHER -> {<<>>})
        /\ out = <<>> /\ outcols = <<>> /\ pending = <<>> /\ step = "start"

\* ---- predicates
Judge == /\ kind = "pred" /\ step = "start"
         /\ out' = <<ExpectAA(obj), ExpectCdr3(obj)>>
         /\ step' = "done"
         /\ UNCHANGED <<kind, obj, tab, cols, opts, outcols, pending>>

\* ---- standardize_dataframe
Copy == /\ kind = "std" /\ step = "start"
        /\ out' = tab /\ outcols' = cols
        /\ step' = "copied"
        /\ UNCHANGED <<kind, obj, tab, cols, opts, pending>>
Rename == /\ kind = "std" /\ step = "copied"
          /\ outcols' = [i \in 1..Len(outcols) |-> Renamed(outcols[i], opts.mapper)]
          /\ pending' = IF opts.standardize
                        THEN SelectSeq(StdOrder, LAMBDA nm : \E i \in 1..Len(outcols') : outcols'[i] = [name |-> nm, old |-> FALSE]) ELSE <<>>
          /\ step' = "mapping"
          /\ UNCHANGED <<kind, obj, tab, cols, opts, out>>
MapColumn == /\ kind = "std" /\ step = "mapping" /\ pending # <<>>
             /\ out' = [r \in 1..Len(out) |-> [i \in 1..Len(outcols) |->
                           IF outcols[i] = [name |-> Head(pending), old |-> FALSE]
                           THEN (IF "missing_not_guarded" \in Mutations /\ out[r][i] = 0 THEN StdTable[KindOf(outcols[i])][1]
                                 ELSE StdCell(outcols[i], out[r][i]))
                           ELSE out[r][i]]]
             /\ pending' = Tail(pending)
             /\ UNCHANGED <<kind, obj, tab, cols, opts, outcols, step>>
StdDone == /\ kind = "std" /\ step = "mapping" /\ pending = <<>>
           /\ step' = "done"
           /\ UNCHANGED <<kind, obj, tab, cols, opts, out, outcols, pending>>

\* ---- multimerge: functools.reduce over the list of tables
MergeStart == /\ kind = "merge" /\ step = "start"
              /\ out' = [k \in DOMAIN tab[1] |-> <<tab[1][k]>>]
              /\ pending' = Tail(tab)
              /\ step' = "merging"
              /\ UNCHANGED <<kind, obj, tab, cols, opts, outcols>>
MergeNext == /\ kind = "merge" /\ step = "merging" /\ pending # <<>>
             /\ out' = [k \in (CASE opts.how = "outer" -> (DOMAIN out) \cup (DOMAIN Head(pending))
                                  [] opts.how = "left" -> DOMAIN out
                                  [] OTHER -> (DOMAIN out) \cap (DOMAIN Head(pending))) |->
                          (IF k \in DOMAIN out THEN out[k] ELSE [i \in 1..(Len(tab) - Len(pending)) |-> 0])
                          \o <<IF k \in DOMAIN Head(pending) THEN Head(pending)[k] ELSE 0>>]
             /\ pending' = Tail(pending)
             /\ UNCHANGED <<kind, obj, tab, cols, opts, outcols, step>>
MergeDone == /\ kind = "merge" /\ step = "merging" /\ pending = <<>>
             /\ step' = "done"
             /\ UNCHANGED <<kind, obj, tab, cols, opts, out, outcols, pending>>

Next == Judge \/ Copy \/ Rename \/ MapColumn \/ StdDone \/ MergeStart \/ MergeNext \/ MergeDone
Spec == Init /\ [][Next]_vars
Done == step = "done"

(***************************************************************************)
(* Properties                                                              *)
(***************************************************************************)
\* standardize_dataframe: every cell is transformed independently of all other cells
CellLocal == (Done /\ kind = "std") =>
    /\ Len(out) = Len(tab) /\ Len(outcols) = Len(cols)
    /\ \A r \in 1..Len(tab) : \A i \in 1..Len(cols) :
          out[r][i] = IF opts.standardize THEN StdCell(Renamed(cols[i], opts.mapper), tab[r][i]) ELSE tab[r][i]
MissingStaysMissing == (Done /\ kind = "std") => \A r \in 1..Len(tab) : \A i \in 1..Len(cols) : tab[r][i] = 0 => out[r][i] = 0
ExtraColumnsKept == (Done /\ kind = "std") => \A r \in 1..Len(tab) : \A i \in 1..Len(cols) : KindOf(outcols[i]) = 0 => out[r][i] = tab[r][i]
InputUnchanged == [][tab' = tab /\ cols' = cols]_vars
\* multimerge = the relational join of all tables on the key
MergeIsJoin == (Done /\ kind = "merge") => out = Join(tab, opts.how)
=============================================================================
