--------------------------- MODULE TraceClustering ---------------------------
(* Trace validation of graph_clustering / hierarchical_clustering (C15).             *)
(* Session = {sid, kind, n, edges, seqs, events}.                                      *)
(*   Graph {method, raised, clusters: [[node, cluster]], labels_ok}                    *)
(*        kind "cc": the label-propagation machine of Clustering.tla is stepped        *)
(*        silently to completion; 'cc' must report exactly the non-singleton           *)
(*        components, community methods must refine them                               *)
(*   Hier  {t, raised, flat: [cluster label per input], vec}                           *)
(*        kind "hier": distances are recomputed by TLC from the sequences (rows are     *)
(*        lists of strings: the distance is the sum of Levenshtein distances over the   *)
(*        columns); single linkage at t must give the connected components of the       *)
(*        threshold graph; vec is the condensed vector the harness feeds to SciPy for   *)
(*        the other linkage methods - it must be the spec's vector                      *)
EXTENDS Clustering, Strings, Json, IOUtils, TLCExt
Sessions == JsonDeserialize(IOEnv.PV_TRACE_FILE)
VARIABLES s, l, verdict
xvars == <<s, l, verdict>>
Events == Sessions[s].events
E == Events[l]
HasEvent(op) == l <= Len(Events) /\ Events[l].op = op
Consume(failed) == /\ verdict' = Append(verdict, [l |-> l, op |-> E.op, failed |-> failed])
                   /\ l' = l + 1 /\ s' = s
Named(c) == { nm \in DOMAIN c : c[nm] }

TraceInit == /\ s \in 1..Len(Sessions) /\ l = 1 /\ verdict = <<>>
             /\ kind = Sessions[s].kind /\ n = Sessions[s].n
             /\ edges = { <<e[1], e[2]>> : e \in ToSet(Sessions[s].edges) }
             /\ D = <<>> /\ t = 0
             /\ label = [i \in 1..n |-> i] /\ part = {} /\ reported = {}
             /\ step = (IF kind = "cc" THEN "run" ELSE "done")

TrSilent == /\ l <= Len(Events) /\ step # "done" /\ (Propagate \/ DropSingles) /\ UNCHANGED xvars

ClusterOf(cl, i) == { c[2] : c \in { d \in ToSet(cl) : d[1] = i } }
TrGraph == /\ HasEvent("Graph") /\ step = "done" /\ UNCHANGED vars
           /\ LET cl == E.clusters
                  nodes == { cl[x][1] : x \in 1..Len(cl) }
                  same(i, j) == ClusterOf(cl, i) = ClusterOf(cl, j)
              IN Consume(Named([
                   raised |-> E.raised,
                   node_reported_twice |-> ~E.raised /\ Len(cl) # Cardinality(nodes),
                   labels_not_callers |-> ~E.raised /\ ~E.labels_ok,
                   singleton_reported_or_member_missing |-> ~E.raised /\ E.method = "cc" /\ nodes # reported,
                   not_connected_components |-> ~E.raised /\ E.method = "cc" /\
                        \E i, j \in nodes \cap reported : same(i, j) # (label[i] = label[j]),
                   merges_components |-> ~E.raised /\ E.method # "cc" /\
                        \E i, j \in nodes : same(i, j) /\ label[i] # label[j],
                   singleton_cluster_reported |-> ~E.raised /\ E.method # "cc" /\
                        \E i \in nodes : \A j \in nodes : (j # i) => ~same(i, j) ]))

RowDist(a, b) == FoldLeft(LAMBDA acc, c : acc + Lev(a[c], b[c]), 0, [c \in 1..Len(a) |-> c])
SpecVec(x) == FoldLeft(LAMBDA v, i : v \o [k \in 1..(Len(x) - i) |-> RowDist(x[i], x[i + k])], <<>>, [i \in 1..(Len(x) - 1) |-> i])
TrHier == /\ HasEvent("Hier") /\ UNCHANGED vars
          /\ \E sv \in { SpecVec(Sessions[s].seqs) } :
               LET m == Len(Sessions[s].seqs)
                   idx(i, j) == m * (i - 1) + (j - 1) - (((i - 1) + 2) * ((i - 1) + 1)) \div 2 + 1
                   G == { p \in Pairs(m) : sv[idx(p[1], p[2])] <= E.t }
                   nbr(i) == { j \in 1..m : <<i, j>> \in G \/ <<j, i>> \in G }
                   comp(i) == FoldLeft(LAMBDA S, k : S \cup UNION { nbr(j) : j \in S }, {i}, [k \in 1..m |-> k])
              IN Consume(Named([
                   raised |-> E.raised,
                   harness_vector_differs_from_spec |-> E.vec # sv,
                   one_label_per_input |-> ~E.raised /\ Len(E.flat) # m,
                   single_linkage_not_components |-> ~E.raised /\ E.single /\ Len(E.flat) = m /\
                        \E i, j \in 1..m : (E.flat[i] = E.flat[j]) # (j \in comp(i)) ]))

\* Large inputs (beyond any blocking / size threshold of the implementation): the collection is Sessions[s].seqs[idx[i]] for
\* i = 1..Len(idx), i.e. many copies of a few distinct rows; the partition of the copies is the partition of the distinct rows
\* lifted through idx (copies are at distance 0 <= t).  uvec = condensed distances of the DISTINCT rows, which the harness lifts
\* to the full condensed vector it hands to SciPy for the linkage comparison.
TrHierBig == /\ HasEvent("HierBig") /\ UNCHANGED vars
             /\ \E sv \in { SpecVec(Sessions[s].seqs) } :
                  LET m == Len(Sessions[s].seqs)
                      big == Len(E.idx)
                      pos(i, j) == m * (i - 1) + (j - 1) - (((i - 1) + 2) * ((i - 1) + 1)) \div 2 + 1
                      G == { p \in Pairs(m) : sv[pos(p[1], p[2])] <= E.t }
                      nbr(i) == { j \in 1..m : <<i, j>> \in G \/ <<j, i>> \in G }
                      comp(i) == FoldLeft(LAMBDA S, k : S \cup UNION { nbr(j) : j \in S }, {i}, [k \in 1..m |-> k])
                      labelsOf(u) == { E.flat[i] : i \in { i \in 1..big : E.idx[i] = u } }
                  IN Consume(Named([
                       raised |-> E.raised,
                       harness_vector_differs_from_spec |-> E.uvec # sv,
                       one_label_per_input |-> ~E.raised /\ Len(E.flat) # big,
                       single_linkage_not_components |-> ~E.raised /\ E.single /\ Len(E.flat) = big /\
                            \E lab \in { [u \in 1..m |-> labelsOf(u)] } :
                               \/ \E u \in 1..m : Cardinality(lab[u]) # 1
                               \/ \E u, v \in 1..m : (lab[u] = lab[v]) # (v \in comp(u)) ]))

TraceNext == TrSilent \/ TrGraph \/ TrHier \/ TrHierBig
TraceSpec == TraceInit /\ [][TraceNext]_<<vars, xvars>>
SessionDone == l > Len(Events)
EmitVerdict == SessionDone => PrintT(ToJson([sid |-> Sessions[s].sid, n |-> Len(Events), verdict |-> verdict]))
=============================================================================
