----------------------------- MODULE TraceKdPool -----------------------------
(* Trace validation of real multiprocessing runs of kdtree against KdPool.tla.  *)
(* The recording pool (harness pv/pool.py) logs, per call:                        *)
(*   Fork     {n, ncpu, chunksize, tag_ok}    parent side, at Pool creation       *)
(*   Chunk    {w, tasks, tags_ok}             one per chunk, ordered by first task *)
(*                                            (= FIFO take order); w = worker      *)
(*                                            ordinal of the process that ran it   *)
(*   Assemble {equal_serial, ntasks_seen}                                         *)
(* Worker events carry per-process order only; a chunk's Finish is placed right   *)
(* after its Take, which is one of the interleavings the model allows.           *)
EXTENDS KdPool, Json, IOUtils, TLCExt

Sessions == JsonDeserialize(IOEnv.PV_TRACE_FILE)
VARIABLES s, l, verdict, took
xvars == <<s, l, verdict, took>>
Events == Sessions[s].events
E == Events[l]
HasEvent(op) == l <= Len(Events) /\ Events[l].op = op
Consume(failed) == /\ verdict' = Append(verdict, [l |-> l, op |-> E.op, failed |-> failed])
                   /\ l' = l + 1 /\ s' = s
Named(c) == { n \in DOMAIN c : c[n] }

TraceInit == /\ s \in 1..Len(Sessions) /\ l = 1 /\ verdict = <<>> /\ took = FALSE
             /\ calls = <<[n |-> Sessions[s].n, ncpu |-> Sessions[s].ncpu]>>
             /\ cur = 1 /\ pc = "idle" /\ params = 0 /\ wparams = <<>> /\ chunks = <<>> /\ queue = <<>>
             /\ running = <<>> /\ slots = <<>> /\ order = <<>> /\ result = <<>> /\ results = <<>> /\ sched = <<>>

TrSetParams == /\ HasEvent("Fork") /\ pc = "idle" /\ SetParams /\ UNCHANGED xvars
TrFork == /\ HasEvent("Fork") /\ pc = "set" /\ Fork
          /\ took' = FALSE
          /\ verdict' = Append(verdict, [l |-> l, op |-> E.op, failed |-> Named([
                 stale_block_at_fork |-> ~E.tag_ok,
                 chunksize_differs |-> E.chunksize # ChunkSize(Call.n, Call.ncpu),
                 ntasks_differs |-> E.n # Call.n ])])
          /\ l' = l + 1 /\ s' = s

\* a worker ordinal beyond n_cpu is folded (the real pool may respawn workers)
W(w) == ((w - 1) % Call.ncpu) + 1
TrTake == /\ HasEvent("Chunk") /\ ~took /\ Take(W(E.w)) /\ took' = TRUE /\ UNCHANGED <<s, l, verdict>>
TrFinish == /\ HasEvent("Chunk") /\ took /\ Finish(W(E.w))
            /\ took' = FALSE
            /\ verdict' = Append(verdict, [l |-> l, op |-> E.op, failed |-> Named([
                   chunk_tasks_differ |-> E.tasks # chunks[running[W(E.w)]],
                   stale_params |-> \E x \in 1..Len(E.tags_ok) : ~E.tags_ok[x] ])])
            /\ l' = l + 1 /\ s' = s
TrAssemble == /\ HasEvent("Assemble")
              /\ IF E.raised THEN UNCHANGED vars ELSE Assemble
              /\ took' = took
              /\ verdict' = Append(verdict, [l |-> l, op |-> E.op, failed |-> Named([
                     differs_from_serial |-> ~E.equal_serial,
                     raised |-> E.raised,
                     task_not_exactly_once |-> E.tasks_sorted # [t \in 1..Call.n |-> t] ])])
              /\ l' = l + 1 /\ s' = s
\* n_cpu = 1: no pool at all
TrSerial == /\ HasEvent("Serial") /\ (SetParams \/ SerialMap) /\ UNCHANGED xvars
TrSerialDone == /\ HasEvent("Serial") /\ pc = "assembled" /\ UNCHANGED vars /\ took' = took
                /\ verdict' = Append(verdict, [l |-> l, op |-> E.op, failed |-> Named([
                       differs_from_serial |-> ~E.equal_serial, raised |-> E.raised ])])
                /\ l' = l + 1 /\ s' = s

TraceNext == TrSetParams \/ TrFork \/ TrTake \/ TrFinish \/ TrAssemble \/ TrSerial \/ TrSerialDone
TraceSpec == TraceInit /\ [][TraceNext]_<<vars, xvars>>
SessionDone == l > Len(Events)
EmitVerdict == SessionDone => PrintT(ToJson([sid |-> Sessions[s].sid, n |-> Len(Events), verdict |-> verdict]))
=============================================================================
