----------------------------- MODULE Coincidence -----------------------------
(***************************************************************************)
(* Coincidence probabilities (pyrepseq/stats.py: pc, pc_n, pc_joint) -     *)
(* property C02.                                                           *)
(*                                                                         *)
(* Reference semantics: the number of ordered pairs of distinct positions  *)
(* holding equal elements over N(N-1); cross form over N1*N2.  Two table   *)
(* rows are equal iff they agree in every column (a missing cell is one    *)
(* distinct value).                                                        *)
(*                                                                         *)
(* The implementation-shaped machine:                                      *)
(*   Convert      table rows are serialised cell-wise with a separator     *)
(*                (pc: ".", pc_joint: "_"); other samples are taken as is  *)
(*   CountUnique  multiplicities of the distinct (serialised) elements     *)
(*   Combine      sum c(c-1) / (N(N-1))   or   sum c1*c2 / (N1*N2)         *)
(***************************************************************************)
EXTENDS Rational, FiniteSetsExt, Functions

CONSTANTS MaxN,       \* sample size 2..MaxN
          MaxN2,      \* second sample size 1..MaxN2 (0: none)
          Vals,       \* element values of plain samples
          CellStrs,   \* cell contents of tables: set of strings (sequences of character codes), separator-free
          MaxCols,    \* 0: no tables
          MaxRows,    \* table size 2..MaxRows
          Kinds,      \* subset of {"one", "two", "table", "table2", "counts"}
          Mutations

VARIABLES kind, a, b, ser, ser2, counts, res, step
vars == <<kind, a, b, ser, ser2, counts, res, step>>

Missing == <<>>             \* fillna(""): the empty string
Sep == 99                   \* the separator character (never part of a cell by the property's quantifier)

\* ---- reference semantics
EqPairs(x) == Cardinality({ ij \in (1..Len(x)) \X (1..Len(x)) : ij[1] # ij[2] /\ x[ij[1]] = x[ij[2]] })
PcSample(x) == RFrac(EqPairs(x), Len(x) * (Len(x) - 1))
CrossPairs(x, y) == Cardinality({ ij \in (1..Len(x)) \X (1..Len(y)) : x[ij[1]] = y[ij[2]] })
PcCross(x, y) == RFrac(CrossPairs(x, y), Len(x) * Len(y))
SumSeq(s) == FoldLeft(LAMBDA acc, v : acc + v, 0, s)
\* sum of the second components of a set of <<key, value>> pairs
SumPairs(P) == FoldLeft(LAMBDA acc, p : acc + p[2], 0, SetToSeq(P))
PcN(n) == RFrac(SumSeq([i \in 1..Len(n) |-> n[i] * (n[i] - 1)]), SumSeq(n) * (SumSeq(n) - 1))

\* ---- the serialisation of a table row: cells joined with the separator
Join(row) == FoldLeft(LAMBDA acc, i : IF i = 1 THEN row[1] ELSE acc \o <<Sep>> \o row[i], <<>>, [i \in 1..Len(row) |-> i])
JoinNoSep(row) == FoldLeft(LAMBDA acc, c : acc \o c, <<>>, row)          \* mutant: separator dropped

Serialise(x, isTable) == IF isTable
                         THEN [i \in 1..Len(x) |-> IF "no_separator" \in Mutations THEN JoinNoSep(x[i]) ELSE Join(x[i])]
                         ELSE x
CountsOf(x) == [v \in Range(x) |-> Cardinality({i \in 1..Len(x) : x[i] = v})]

Rows(ncols) == [1..ncols -> CellStrs \cup {Missing}]
Samples(n) == UNION { [1..m -> Vals] : m \in 2..n }
Tables(n) == UNION { UNION { [1..m -> Rows(c)] : m \in 2..n } : c \in 1..MaxCols }
CountVecs(n) == UNION { { v \in [1..k -> 1..n] : SumSeq(v) >= 2 /\ SumSeq(v) <= n } : k \in 1..n }

IsTable == kind \in {"table", "table2"}
Init == /\ kind \in Kinds
        /\ a \in (CASE kind \in {"one", "two"} -> Samples(MaxN)
                    [] kind \in {"table", "table2"} -> Tables(MaxRows)
                    [] kind = "counts" -> CountVecs(MaxN))
        /\ b \in (CASE kind = "two" -> UNION { [1..m -> Vals] : m \in 1..MaxN2 }
                    [] kind = "table2" -> UNION { [1..m -> Rows(Len(a[1]))] : m \in 1..MaxN2 }
                    [] OTHER -> {<<>>})
        /\ ser = <<>> /\ ser2 = <<>> /\ counts = <<>> /\ res = <<0, 1>> /\ step = "start"

Convert == /\ step = "start" /\ kind # "counts"
           /\ ser' = Serialise(a, IsTable)
           /\ ser2' = IF b = <<>> THEN <<>> ELSE Serialise(b, IsTable)
           /\ step' = "converted"
           /\ UNCHANGED <<kind, a, b, counts, res>>

CountUnique == /\ step = "converted"
               /\ counts' = IF b = <<>> THEN <<CountsOf(ser)>> ELSE <<CountsOf(ser), CountsOf(ser2)>>
               /\ step' = "counted"
               /\ UNCHANGED <<kind, a, b, ser, ser2, res>>

Combine == /\ step = "counted"
           /\ res' = IF b = <<>>
                     THEN RFrac(SumPairs({ <<v, counts[1][v] * (counts[1][v] - 1)>> : v \in DOMAIN counts[1] }),
                                IF "n_squared" \in Mutations THEN Len(ser) * Len(ser) ELSE Len(ser) * (Len(ser) - 1))
                     ELSE RFrac(SumPairs({ <<v, counts[1][v] * counts[2][v]>> : v \in (DOMAIN counts[1]) \cap (DOMAIN counts[2]) }),
                                Len(ser) * Len(ser2))
           /\ step' = "done"
           /\ UNCHANGED <<kind, a, b, ser, ser2, counts>>

\* pc_n works on the multiplicity vector directly
FromCounts == /\ step = "start" /\ kind = "counts"
              /\ res' = PcN(a)
              /\ step' = "done"
              /\ UNCHANGED <<kind, a, b, ser, ser2, counts>>

Next == Convert \/ CountUnique \/ Combine \/ FromCounts
Spec == Init /\ [][Next]_vars

(***************************************************************************)
(* Properties                                                              *)
(***************************************************************************)
Done == step = "done"
PcExact == (Done /\ kind # "counts") => res = (IF b = <<>> THEN PcSample(a) ELSE PcCross(a, b))
InUnitInterval == Done => (RLe(<<0, 1>>, res) /\ RLe(res, <<1, 1>>))
\* depends only on the multiset: equals pc_n of the multiplicity vector
MultisetOnly == (Done /\ kind \in {"one", "table"}) =>
    res = PcN(RWith(SetToSeq({ <<v, Cardinality({i \in 1..Len(a) : a[i] = v})>> : v \in Range(a) }),
                    LAMBDA q : [i \in 1..Len(q) |-> q[i][2]]))
\* serialisation is injective on separator-free cells: equal joined strings <=> equal rows
JoinInjective == (step = "converted" /\ IsTable) =>
    \A i, j \in 1..Len(a) : (ser[i] = ser[j]) <=> (a[i] = a[j])
=============================================================================
