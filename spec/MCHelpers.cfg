SPECIFICATION Spec
CONSTANTS
  Kinds = {"label", "tuple", "numpy", "metric", "glyphs", "legend", "split"}
  MaxAxes = 5
  MaxLabels = 3
  MaxChain = 3
  MaxGenes = 3
  MaxCount = 3
  MaxHandles = 4
  MaxSplit = 4
INVARIANT LabelsCycle
INVARIANT GlyphsPartition
INVARIANT LegendCentred
INVARIANT MetricTable
INVARIANT SplitTriangles
INVARIANT EmitCase
