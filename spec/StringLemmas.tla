---------------------------- MODULE StringLemmas ----------------------------
(***************************************************************************)
(* Lemmas about the string distances of Strings.tla that the conformance   *)
(* harness relies on when it LIFTS an accepted small session to inputs the  *)
(* trace machine cannot step through (model-checked here for all strings   *)
(* up to a length bound; used for all lengths):                            *)
(*  AffixLemma    a common prefix and a common suffix change neither the   *)
(*                (weighted) Levenshtein nor the Hamming distance of a     *)
(*                pair: d(p x s, p y s) = d(x, y)  (pv/nnprops.affix_lift:  *)
(*                sequences of 32 .. 150 letters)                          *)
(*  LengthLemma   strings whose lengths differ by more than k are not      *)
(*                within k edits, and are never Hamming neighbours (the     *)
(*                unrelated fillers of the lifted inputs)                  *)
(*  CopyLemma     copies of one string are at distance 0 and inherit its    *)
(*                distances (pv/nnprops.lifted_big, pv/lifted.py)           *)
(***************************************************************************)
EXTENDS Strings

CONSTANTS A, L          \* alphabet size, length bound

VARIABLE t
Init == t \in { <<p, x, y, s>> : p \in AllStrings(A, L), x \in AllStrings(A, L), y \in AllStrings(A, L), s \in AllStrings(A, L) }
Next == UNCHANGED t
Spec == Init /\ [][Next]_t

P == t[1]
X == t[2]
Y == t[3]
S == t[4]

AffixLemma ==
    /\ Lev(P \o X \o S, P \o Y \o S) = Lev(X, Y)
    /\ WLev(P \o X \o S, P \o Y \o S, 2, 3, 4) = WLev(X, Y, 2, 3, 4)
    /\ WLev(P \o X \o S, P \o Y \o S, 3, 1, 2) = WLev(X, Y, 3, 1, 2)
    /\ HamInf(P \o X \o S, P \o Y \o S) = HamInf(X, Y)
LengthLemma ==
    /\ Lev(X, Y) >= Abs(Len(X) - Len(Y))
    /\ (Len(X) # Len(Y) => HamInf(X, Y) = Inf)
CopyLemma ==
    /\ Lev(X, X) = 0 /\ HamInf(X, X) = 0
    /\ Lev(X, Y) = Lev(Y, X)
    /\ (X = P => Lev(X, Y) = Lev(P, Y))
=============================================================================
