SPECIFICATION Spec
CONSTANTS
  A = 2
  L = 3
INVARIANT AffixLemma
INVARIANT LengthLemma
INVARIANT CopyLemma
