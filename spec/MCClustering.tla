---------------------------- MODULE MCClustering ----------------------------
EXTENDS Clustering, Json
EmitCase == Done => PrintT(ToJson(
    IF kind = "cc" THEN [kind |-> kind, n |-> n, edges |-> SetToSeq(edges), label |-> label, reported |-> SetToSeq(reported)]
    ELSE [kind |-> kind, n |-> n, D |-> SetToSeq({ <<p[1], p[2], D[p]>> : p \in DOMAIN D }), t |-> t, part |-> SetToSeq({ SetToSeq(a) : a \in part })]))
=============================================================================
