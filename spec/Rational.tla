------------------------------ MODULE Rational ------------------------------
(***************************************************************************)
(* Exact rationals <<num, den>> with den > 0, gcd-normalised.  TLC has     *)
(* 32-bit integers and RAISES on overflow, so a silent wrap is impossible; *)
(* bounds of the models keep all intermediate products below 2^31.         *)
(* Floats returned by the code are logged by the harness as snapped        *)
(* rationals (Fraction.limit_denominator) with the residual checked.       *)
(***************************************************************************)
EXTENDS Integers, Sequences, SequencesExt, FiniteSets, TLC

RAbs(x) == IF x < 0 THEN -x ELSE x
\* a bound variable holds a value (operator arguments are re-evaluated at every reference)
RWith(v, F(_)) == CHOOSE r \in { F(x) : x \in {v} } : TRUE

RECURSIVE GCD(_, _)
GCD(a, b) == IF b = 0 THEN a ELSE RWith(<<b, a % b>>, LAMBDA p : GCD(p[1], p[2]))

RNorm(r) == RWith(<<r[1], r[2]>>, LAMBDA q :
              IF q[1] = 0 THEN <<0, 1>>
              ELSE RWith(GCD(RAbs(q[1]), RAbs(q[2])), LAMBDA g :
                         IF q[2] < 0 THEN <<(0 - q[1]) \div g, (0 - q[2]) \div g>> ELSE <<q[1] \div g, q[2] \div g>>))

R(n) == <<n, 1>>
RFrac(n, d) == RNorm(<<n, d>>)
RAdd(a, b) == RNorm(<<a[1] * b[2] + b[1] * a[2], a[2] * b[2]>>)
RSub(a, b) == RNorm(<<a[1] * b[2] - b[1] * a[2], a[2] * b[2]>>)
RMul(a, b) == RNorm(<<a[1] * b[1], a[2] * b[2]>>)
RDiv(a, b) == RNorm(<<a[1] * b[2], a[2] * b[1]>>)         \* b # 0
REq(a, b) == a[1] * b[2] = b[1] * a[2]
RLe(a, b) == a[1] * b[2] <= b[1] * a[2]                   \* dens > 0
RLt(a, b) == a[1] * b[2] < b[1] * a[2]
RSum(seq) == FoldLeft(LAMBDA acc, r : RAdd(acc, r), <<0, 1>>, seq)
RIsZero(a) == a[1] = 0
=============================================================================
