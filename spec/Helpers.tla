------------------------------ MODULE Helpers ------------------------------
(***************************************************************************)
(* Small public helpers that no listed property speaks about (coverage of  *)
(* the specification beyond C01-C20; conformance is reported as DRIFT by   *)
(* ./check X01, never as a violation of a listed property):                *)
(*  "label"    plotting.label_axes: walks the axes and annotates each with *)
(*             the next label, re-using the labels cyclically              *)
(*  "tuple"    util.convert_tuple_to_dataframe_if_necessary: a 2-tuple of  *)
(*             chains becomes a table of rows paired BY POSITION (as many   *)
(*             rows as the shorter chain); anything else is returned as is *)
(*  "numpy"    util.ensure_numpy: Series -> its values, ndarray -> itself, *)
(*             other containers -> a new array                             *)
(*  "metric"   distance.get_default_metric_for_input_data and              *)
(*             tcr_metric.is_in_standard_format as decision tables over    *)
(*             the set of columns present                                  *)
(*  "glyphs"   plotting.seqlogos_vj: per gene a glyph from the cumulative  *)
(*             count before it to the cumulative count after it, genes in  *)
(*             order of decreasing count                                   *)
(*  "legend"   plotting.HandlerTupleOffset: the i-th of n handles is       *)
(*             shifted by (extent / n) * (i - (n - 1) / 2)                  *)
(*  "split"    plotting.clustermap_split / ClusterGridSplit: after the     *)
(*             rows and columns have been put in dendrogram order, the     *)
(*             cells below the diagonal come from the lower table, the     *)
(*             cells above it from the upper table and the diagonal holds  *)
(*             the SUM of both (np.tril + np.triu as written in the code)  *)
(***************************************************************************)
EXTENDS Integers, Sequences, SequencesExt, FiniteSets, FiniteSetsExt, TLC, Rational

CONSTANTS Kinds, MaxAxes, MaxLabels, MaxChain, MaxGenes, MaxCount, MaxHandles, MaxSplit

VARIABLES kind, inp, i, out, step
vars == <<kind, inp, i, out, step>>

Cols == {"CDR3A", "CDR3B", "TRAV", "clone"}
TcrCols == {"TRAV", "CDR3A", "TRAJ", "TRBV", "CDR3B", "TRBJ"}

Perms(n) == { p \in [1..n -> 1..n] : \A a, b \in 1..n : a # b => p[a] # p[b] }

Init == /\ kind \in Kinds
        /\ inp \in (CASE kind = "label" -> { [axes |-> n, labels |-> l] : n \in 0..MaxAxes, l \in UNION { [1..k -> 1..3] : k \in 0..MaxLabels } }
                      [] kind = "tuple" -> { [cls |-> c, a |-> a, b |-> b] : c \in {"tuple2", "tuple3", "list", "table"}, a \in 0..MaxChain, b \in 0..MaxChain }
                      [] kind = "numpy" -> { [cls |-> c] : c \in {"series", "ndarray", "list", "tuple"} }
                      [] kind = "metric" -> { [cls |-> c, cols |-> s] : c \in {"table", "list"}, s \in SUBSET Cols }
                      [] kind = "glyphs" -> { [counts |-> c] : c \in UNION { [1..k -> 1..MaxCount] : k \in 1..MaxGenes } }
                      [] kind = "legend" -> { [n |-> n, horizontal |-> h] : n \in 1..MaxHandles, h \in BOOLEAN }
                      \* the library uses one linkage for rows and columns (a symmetric distance table), so the two orders are the same
                      \* permutation; the tables hold coordinate codes (10 r + c, resp. 100 + 10 r + c): every misplaced cell is visible.
                      \* (Independent row / column orders make seaborn's mask validation raise - observed, see DESIGN.md 9.2.)
                      [] kind = "split" -> UNION { { [n |-> n, rows |-> y, cols |-> y] : y \in Perms(n) } : n \in 2..MaxSplit })
        /\ i = 1 /\ out = <<>> /\ step = "run"

Lower(r, c) == 10 * r + c
Upper(r, c) == 100 + 10 * r + c

\* ---- label_axes: zip(axes, cycle(labels))
Annotate == /\ kind = "label" /\ step = "run"
            /\ IF i > inp.axes \/ inp.labels = <<>> THEN step' = "done" /\ UNCHANGED <<i, out>>
               ELSE /\ out' = Append(out, inp.labels[((i - 1) % Len(inp.labels)) + 1])
                    /\ i' = i + 1 /\ step' = step
            /\ UNCHANGED <<kind, inp>>

\* ---- all other helpers are single steps
Sorted(c) == SortSeq(c, LAMBDA x, y : x > y)                                   \* value_counts: decreasing counts
Cum(c, k) == FoldLeft(LAMBDA acc, j : acc + c[j], 0, [j \in 1..k |-> j])
Evaluate ==
    /\ kind # "label" /\ step = "run"
    /\ out' = CASE kind = "tuple" -> IF inp.cls = "tuple2" THEN [converted |-> TRUE, rows |-> (IF inp.a < inp.b THEN inp.a ELSE inp.b)]
                                      ELSE [converted |-> FALSE, rows |-> -1]
                [] kind = "numpy" -> [same_object |-> inp.cls = "ndarray", is_array |-> TRUE]
                [] kind = "metric" -> [metric |-> IF inp.cls # "table" THEN "Levenshtein"
                                                 ELSE IF {"CDR3A", "CDR3B"} \subseteq inp.cols THEN "Cdr3Levenshtein"
                                                 ELSE IF "CDR3A" \in inp.cols THEN "AlphaCdr3Levenshtein"
                                                 ELSE IF "CDR3B" \in inp.cols THEN "BetaCdr3Levenshtein" ELSE "Levenshtein",
                                       standard |-> inp.cls = "table" /\ (inp.cols \cap TcrCols) # {}]
                [] kind = "glyphs" -> [stack |-> [k \in 1..Len(inp.counts) |-> <<Cum(Sorted(inp.counts), k - 1), Cum(Sorted(inp.counts), k)>>]]
                [] kind = "legend" -> [shift |-> [k \in 1..inp.n |-> RMul(RFrac(1, inp.n), RSub(R(k - 1), RFrac(inp.n - 1, 2)))]]      \* in units of the extent
                [] kind = "split" -> [cells |-> [r \in 1..inp.n |-> [c \in 1..inp.n |->
                                          (IF r >= c THEN Lower(inp.rows[r], inp.cols[c]) ELSE 0) + (IF r <= c THEN Upper(inp.rows[r], inp.cols[c]) ELSE 0)]]]
    /\ step' = "done"
    /\ UNCHANGED <<kind, inp, i>>

Next == Annotate \/ Evaluate
Spec == Init /\ [][Next]_vars
Done == step = "done"

\* ---- properties
LabelsCycle == (Done /\ kind = "label") =>
    /\ Len(out) = (IF inp.labels = <<>> THEN 0 ELSE inp.axes)
    /\ \A k \in 1..Len(out) : out[k] = inp.labels[((k - 1) % Len(inp.labels)) + 1]
    /\ (Len(inp.labels) >= inp.axes => \A k \in 1..Len(out) : out[k] = inp.labels[k])
GlyphsPartition == (Done /\ kind = "glyphs") =>
    /\ out.stack[1][1] = 0
    /\ out.stack[Len(out.stack)][2] = Cum(inp.counts, Len(inp.counts))
    /\ \A k \in 1..(Len(out.stack) - 1) : out.stack[k][2] = out.stack[k + 1][1]
    /\ \A k \in 1..(Len(out.stack) - 1) : out.stack[k][2] - out.stack[k][1] >= out.stack[k + 1][2] - out.stack[k + 1][1]
LegendCentred == (Done /\ kind = "legend") =>
    /\ RSum(out.shift) = <<0, 1>>                                              \* shifts are symmetric about the anchor
    /\ \A k \in 1..(inp.n - 1) : RSub(out.shift[k + 1], out.shift[k]) = RFrac(1, inp.n)
SplitTriangles == (Done /\ kind = "split") =>
    \A r, c \in 1..inp.n :
        /\ (r > c => out.cells[r][c] = Lower(inp.rows[r], inp.cols[c]))
        /\ (r < c => out.cells[r][c] = Upper(inp.rows[r], inp.cols[c]))
        /\ (r = c => out.cells[r][c] = Lower(inp.rows[r], inp.cols[c]) + Upper(inp.rows[r], inp.cols[c]))
MetricTable == (Done /\ kind = "metric") =>
    /\ (out.metric = "Levenshtein") = (inp.cls # "table" \/ ({"CDR3A", "CDR3B"} \cap inp.cols) = {})
    /\ (out.standard => inp.cls = "table")
=============================================================================
