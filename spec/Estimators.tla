------------------------------ MODULE Estimators ------------------------------
(***************************************************************************)
(* Unbiasedness of the coincidence estimators (C06) and closed forms of    *)
(* the richness / overlap estimators (C16) of pyrepseq/stats.py, in exact  *)
(* rationals.                                                              *)
(*                                                                         *)
(* C06.  For fixed (N, K) the claim E_p[pc_n] = sum p_i^2 is an identity   *)
(* between homogeneous polynomials of degree N in p on the simplex.        *)
(* Comparing the coefficients of p^n gives, for EVERY count vector n with  *)
(* |n| = N (M = multinomial coefficient, 0 for a negative entry):          *)
(*                                                                         *)
(*   mean   M(N;n) * sum n_i(n_i-1) = N(N-1) * sum_i M(N-2; n - 2e_i)      *)
(*   cross  M(N1;n) M(N2;m) sum n_i m_i                                    *)
(*            = N1 N2 sum_i M(N1-1; n-e_i) M(N2-1; m-e_i)                  *)
(*   var    M(N;n) * (PcN(n)^2 - VarPcN(n))                                *)
(*            = sum_{i,j} M(N-4; n - 2e_i - 2e_j)                          *)
(*          (because E[pc^2] - E[varpc_n] must be (sum p^2)^2 (sum p)^(N-4))*)
(*                                                                         *)
(* VarPcN is the transcription of varpc_n; the harness binds it to the     *)
(* code by comparing values on every enumerated count vector.              *)
(***************************************************************************)
EXTENDS Rational, FiniteSetsExt

CONSTANTS MaxN, MaxK, MaxN2,        \* sample sizes / categories for the identities
          MaxLen, MaxCount,         \* frequency-of-frequency vectors: length 1..MaxLen, entries 0..MaxCount
          SetVals, MaxSetLen,       \* overlap family: collections over SetVals \cup {Missing} of length <= MaxSetLen
          Kinds, Mutations

VARIABLES kind, n, m, res, step
vars == <<kind, n, m, res, step>>

Missing == 0
NaN == <<0, 0>>           \* denominator 0 encodes "not a number"

SumSeq(s) == FoldLeft(LAMBDA acc, v : acc + v, 0, s)
Fact(k) == FoldLeft(LAMBDA acc, v : acc * v, 1, [i \in 1..k |-> i])
\* multinomial coefficient, 0 when an entry is negative
Multi(v) == IF \E i \in 1..Len(v) : v[i] < 0 THEN 0
            ELSE FoldLeft(LAMBDA acc, c : acc \div Fact(c), Fact(SumSeq(v)), v)
Dec(v, i, d) == [v EXCEPT ![i] = v[i] - d]

\* ---- estimators, transcribed
PcN(v) == RFrac(SumSeq([i \in 1..Len(v) |-> v[i] * (v[i] - 1)]), SumSeq(v) * (SumSeq(v) - 1))
P3N(v) == RFrac(SumSeq([i \in 1..Len(v) |-> v[i] * (v[i] - 1) * (v[i] - 2)]), SumSeq(v) * (SumSeq(v) - 1) * (SumSeq(v) - 2))
VarPcN(v) ==
    RWith(SumSeq(v), LAMBDA N :
      RWith(<<PcN(v), P3N(v), RFrac(2 * (2 * N - 3), (N - 2) * (N - 3))>>, LAMBDA q :      \* q = <<p2, p3, beta>>
        RWith(RAdd(R(1), q[3]), LAMBDA ob :                                                 \* 1 + beta
          RAdd(RSub(RMul(RMul(RFrac(4 * (N - 2), N * (N - 1)), ob), q[2]),
                    RMul(q[3], RMul(q[1], q[1]))),
               RMul(RMul(RFrac(IF "var_coeff" \in Mutations THEN 3 ELSE 2, N * (N - 1)), ob), q[1])))))
PcCrossN(v, w) == RFrac(SumSeq([i \in 1..Len(v) |-> v[i] * w[i]]), SumSeq(v) * SumSeq(w))

\* ---- the same estimators in arbitrary precision (BigInt.tla) for realistic sample sizes; rationals <<integer, natural>>
Big == INSTANCE BigInt WITH Base <- 10000
BigFalling(v, k) == FoldLeft(LAMBDA acc, c : Big!BAdd(acc, Big!BProdInts([j \in 1..k |-> c - (j - 1)])), Big!BZero, v)    \* sum_i c_i (c_i-1) ... (c_i-k+1)
BigPcN(v) == RWith(Big!BSumInts(v), LAMBDA N :
               Big!QFracB(BigFalling(v, 2), Big!BMul(N, Big!BSub(N, Big!BOf(1)))))
BigPcCrossN(v, w) == Big!QFracB(FoldLeft(LAMBDA acc, i : Big!BAdd(acc, Big!BMul(Big!BOf(v[i]), Big!BOf(w[i]))), Big!BZero, [i \in 1..Len(v) |-> i]),
                               Big!BMul(Big!BSumInts(v), Big!BSumInts(w)))
BigVarPcN(v) ==
    RWith(Big!BSumInts(v), LAMBDA N :
      RWith(<<Big!BSub(N, Big!BOf(1)), Big!BSub(N, Big!BOf(2)), Big!BSub(N, Big!BOf(3))>>, LAMBDA d :        \* N-1, N-2, N-3
        RWith(Big!BMul(N, d[1]), LAMBDA nn1 :                                                                 \* N (N-1)
          RWith(<<Big!QFracB(BigFalling(v, 2), nn1),
                  Big!QFracB(BigFalling(v, 3), Big!BMul(nn1, d[2])),
                  Big!QFracB(Big!BMul(Big!BOf(2), Big!BSub(Big!BMul(Big!BOf(2), N), Big!BOf(3))), Big!BMul(d[2], d[3]))>>, LAMBDA q :   \* p2, p3, beta
            RWith(Big!QAdd(Big!QOf(1), q[3]), LAMBDA ob :
              Big!QAdd(Big!QSub(Big!QMul(Big!QMul(Big!QFracB(Big!BMul(Big!BOf(4), d[2]), nn1), ob), q[2]),
                                Big!QMul(q[3], Big!QMul(q[1], q[1]))),
                       Big!QMul(Big!QMul(Big!QFracB(Big!BOf(2), nn1), ob), q[1])))))))
HasDoubletons(c) == Len(c) > 1 /\ c[2] # 0
\* Chao1 / Chao2 / classical variance with f1, f2 as large as a repertoire's singleton / doubleton counts
BigChao(c, withoutF2) == IF Len(c) = 1 \/ c[2] = 0
                         THEN (IF withoutF2 THEN Big!QFracB(Big!BAdd(Big!BMul(Big!BOf(2), Big!BSumInts(c)), Big!BMul(Big!BOf(c[1]), Big!BOf(c[1] - 1))), Big!BOf(2)) ELSE NaN)
                         ELSE Big!QAdd(<<Big!BSumInts(c), <<1>> >>, Big!QFracB(Big!BMul(Big!BOf(c[1]), Big!BOf(c[1])), Big!BMul(Big!BOf(2), Big!BOf(c[2]))))
BigVarChao(c) == IF Len(c) = 1 \/ c[2] = 0 THEN NaN
                 ELSE RWith(<<Big!BOf(c[1]), Big!BOf(c[2])>>, LAMBDA f :
                        RWith(<<Big!BMul(f[1], f[1]), Big!BMul(f[2], f[2])>>, LAMBDA sq :                       \* f1^2, f2^2
                          Big!QAdd(Big!QAdd(Big!QFracB(sq[1], Big!BMul(Big!BOf(2), f[2])),
                                            Big!QFracB(Big!BMul(sq[1], f[1]), sq[2])),
                                   Big!QFracB(Big!BMul(sq[1], sq[1]), Big!BMul(Big!BOf(4), Big!BMul(sq[2], f[2]))))))

\* ---- richness
Chao1(c) == IF Len(c) = 1 \/ c[2] = 0 THEN RFrac(2 * SumSeq(c) + c[1] * (c[1] - 1), 2)
            ELSE RAdd(R(SumSeq(c)), RMul(RFrac(c[1], c[2]), RFrac(c[1], 2)))      \* f1^2 / (2 f2), ratio first (32-bit integers)
Chao2(c) == IF Len(c) = 1 \/ c[2] = 0 THEN NaN
            ELSE RAdd(R(SumSeq(c)), RMul(RFrac(c[1], c[2]), RFrac(c[1], 2)))
\* classical Chao variance  f2 (r^2/2 + r^3 + r^4/4),  r = f1/f2
VarChao(c) == IF Len(c) = 1 \/ c[2] = 0 THEN NaN
              ELSE RWith(RFrac(c[1], c[2]), LAMBDA r :
                     IF "varchao_asfound" \in Mutations          \* f2 ((r/4)^4 + r^3 + (r/2)^2), the pinned commit's var_chao1
                     THEN RMul(R(c[2]), RAdd(RAdd(RMul(RMul(RMul(r, RFrac(1, 4)), RMul(r, RFrac(1, 4))), RMul(RMul(r, RFrac(1, 4)), RMul(r, RFrac(1, 4)))),
                                                  RMul(r, RMul(r, r))), RMul(RMul(r, RFrac(1, 2)), RMul(r, RFrac(1, 2)))))
                     ELSE RMul(R(c[2]), RAdd(RAdd(RMul(RFrac(1, 2), RMul(r, r)), RMul(r, RMul(r, r))),
                                             RMul(RFrac(1, 4), RMul(RMul(r, r), RMul(r, r))))))

\* ---- overlap family on the element sets after removal of missing values
Elems(s) == { s[i] : i \in 1..Len(s) } \ {Missing}
Jaccard(x, y) == RFrac(Cardinality(Elems(x) \cap Elems(y)), Cardinality(Elems(x) \cup Elems(y)))
Overlap(x, y) == R(Cardinality(Elems(x) \cap Elems(y)))
OverlapCoef(x, y) == IF Elems(x) = {} \/ Elems(y) = {} THEN NaN
                     ELSE RFrac(Cardinality(Elems(x) \cap Elems(y)),
                                IF Cardinality(Elems(x)) < Cardinality(Elems(y)) THEN Cardinality(Elems(x)) ELSE Cardinality(Elems(y)))

CountVecs(N, K) == { v \in [1..K -> 0..N] : SumSeq(v) = N }
FofVecs == UNION { [1..k -> 0..MaxCount] : k \in 1..MaxLen }
Colls == UNION { [1..k -> SetVals \cup {Missing}] : k \in 0..MaxSetLen }

Init == /\ kind \in Kinds
        /\ n \in (CASE kind = "mean" -> UNION { UNION { CountVecs(N, K) : K \in 1..MaxK } : N \in 2..MaxN }
                    [] kind = "var" -> UNION { UNION { CountVecs(N, K) : K \in 1..MaxK } : N \in 4..MaxN }
                    [] kind = "cross" -> UNION { UNION { CountVecs(N, K) : K \in 1..MaxK } : N \in 1..MaxN2 }
                    [] kind = "fof" -> FofVecs
                    [] kind = "sets" -> Colls)
        /\ m \in (CASE kind = "cross" -> UNION { CountVecs(N, Len(n)) : N \in 1..MaxN2 }
                    [] kind = "sets" -> Colls
                    [] OTHER -> {<<>>})
        /\ res = <<>> /\ step = "start"

\* one action: evaluate the estimators on the chosen input (the record is what the harness replays)
Evaluate ==
    /\ step = "start"
    /\ res' = CASE kind = "mean" -> [pc |-> PcN(n)]
                [] kind = "var" -> [pc |-> PcN(n), var |-> VarPcN(n)]
                [] kind = "cross" -> [pc |-> PcCrossN(n, m)]
                [] kind = "fof" -> [chao1 |-> Chao1(n), chao2 |-> Chao2(n), var |-> VarChao(n)]
                [] kind = "bigmean" -> [pc |-> BigPcN(n)]
                [] kind = "bigvar" -> [pc |-> BigPcN(n), var |-> BigVarPcN(n)]
                [] kind = "bigcross" -> [pc |-> BigPcCrossN(n, m)]
                [] kind = "bigfof" -> [chao1 |-> BigChao(n, TRUE), chao2 |-> BigChao(n, FALSE), var |-> BigVarChao(n)]
                [] kind = "sets" -> [jaccard |-> IF Elems(n) \cup Elems(m) = {} THEN NaN ELSE Jaccard(n, m),
                                     overlap |-> Overlap(n, m), coef |-> OverlapCoef(n, m)]
    /\ step' = "done"
    /\ UNCHANGED <<kind, n, m>>

Next == Evaluate
Spec == Init /\ [][Next]_vars
Done == step = "done"

(***************************************************************************)
(* C06: coefficient identities                                             *)
(***************************************************************************)
MeanUnbiased == (Done /\ kind = "mean") =>
    RWith(SumSeq(n), LAMBDA N :
        Multi(n) * SumSeq([i \in 1..Len(n) |-> n[i] * (n[i] - 1)])
          = N * (N - 1) * SumSeq([i \in 1..Len(n) |-> Multi(Dec(n, i, 2))]))
CrossUnbiased == (Done /\ kind = "cross") =>
    Multi(n) * Multi(m) * SumSeq([i \in 1..Len(n) |-> n[i] * m[i]])
      = SumSeq(n) * SumSeq(m) * SumSeq([i \in 1..Len(n) |-> Multi(Dec(n, i, 1)) * Multi(Dec(m, i, 1))])
VarUnbiased == (Done /\ kind = "var") =>
    REq(RMul(R(Multi(n)), RSub(RMul(res.pc, res.pc), res.var)),
        R(SumSeq([i \in 1..Len(n) |-> SumSeq([j \in 1..Len(n) |-> Multi(Dec(Dec(n, i, 2), j, 2))])])))
PcInUnit == (Done /\ kind \in {"mean", "var", "cross"}) => (RLe(R(0), res.pc) /\ RLe(res.pc, R(1)))

\* the arbitrary-precision transcriptions are the same functions as the 32-bit rational ones wherever both can be evaluated
BigAgrees ==
    /\ (Done /\ kind \in {"mean", "var"}) => Big!QEq(BigPcN(n), Big!QOfRat(res.pc))
    /\ (Done /\ kind = "var") => Big!QEq(BigVarPcN(n), Big!QOfRat(res.var))
    /\ (Done /\ kind = "cross") => Big!QEq(BigPcCrossN(n, m), Big!QOfRat(res.pc))
    /\ (Done /\ kind = "fof") =>
          /\ Big!QEq(BigChao(n, TRUE), Big!QOfRat(res.chao1))
          /\ (res.chao2 = NaN) = ~HasDoubletons(n)
          /\ (res.chao2 # NaN => Big!QEq(BigChao(n, FALSE), Big!QOfRat(res.chao2)))
          /\ (res.var = NaN) = ~HasDoubletons(n)
          /\ (res.var # NaN => Big!QEq(BigVarChao(n), Big!QOfRat(res.var)))

(***************************************************************************)
(* C16                                                                     *)
(***************************************************************************)
ChaoNotBelowObserved == (Done /\ kind = "fof") =>
    /\ RLe(R(SumSeq(n)), res.chao1)
    /\ (res.chao2 # NaN => RLe(R(SumSeq(n)), res.chao2))
    /\ (res.var # NaN => RLe(R(0), res.var))
    /\ ((res.var = NaN) <=> (Len(n) = 1 \/ n[2] = 0))
\* the same variance in expanded form  f1^2/(2 f2) + f1^3/f2^2 + f1^4/(4 f2^3)
VarChaoExpanded == (Done /\ kind = "fof" /\ res.var # NaN) =>
    REq(res.var, RAdd(RAdd(RFrac(n[1] * n[1], 2 * n[2]), RFrac(n[1] * n[1] * n[1], n[2] * n[2])),
                      RFrac(n[1] * n[1] * n[1] * n[1], 4 * n[2] * n[2] * n[2])))
OverlapSymmetric == (Done /\ kind = "sets") =>
    /\ Jaccard(n, m) = Jaccard(m, n) /\ Overlap(n, m) = Overlap(m, n) /\ OverlapCoef(n, m) = OverlapCoef(m, n)
    /\ (res.jaccard # NaN => (RLe(R(0), res.jaccard) /\ RLe(res.jaccard, R(1))))
    /\ (res.coef # NaN => (RLe(R(0), res.coef) /\ RLe(res.coef, R(1)) /\ RLe(res.jaccard, res.coef)))
=============================================================================
