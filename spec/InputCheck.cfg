SPECIFICATION Spec
INVARIANT RejectedIffInvalid
INVARIANT EmitCase
PROPERTY ErrorIsFinal
