---------------------------- MODULE TraceResample ----------------------------
(* Trace validation for C17.  One event per session:                              *)
(*   Subsample  {counts, n, raised, idx, cnt}     outcome must be a reachable       *)
(*                                                final state of the drawing machine *)
(*   Downsample {items, ms, none, same, ret}      items / ret interned; identity     *)
(*                                                when small or maxseqs is None,      *)
(*                                                else a sub-multiset of size ms      *)
(*   PowerSample {size, xmin, raised, ret}        requested number of integer-valued  *)
(*                                                numbers >= xmin (ret: integers, -1   *)
(*                                                marks a non-integer value)           *)
(*   MleSelect  {c, cmin, sel}                    the multiset over which the harness  *)
(*                                                evaluates the documented closed form  *)
(*                                                must be {x in c : x >= cmin}          *)
(*                                                (cmin = <<num, den>>)                *)
EXTENDS Resample, Json, IOUtils, TLCExt
Sessions == JsonDeserialize(IOEnv.PV_TRACE_FILE)
VARIABLES s, l, verdict
xvars == <<s, l, verdict>>
Events == Sessions[s].events
E == Events[l]
HasEvent(op) == l <= Len(Events) /\ Events[l].op = op
Consume(failed) == /\ verdict' = Append(verdict, [l |-> l, op |-> E.op, failed |-> failed])
                   /\ l' = l + 1 /\ s' = s
Named(c) == { nm \in DOMAIN c : c[nm] }
TraceInit == /\ s \in 1..Len(Sessions) /\ l = 1 /\ verdict = <<>>
             /\ kind = "trace" /\ counts = <<>> /\ want = 0 /\ remaining = <<>> /\ drawn = <<>> /\ ndrawn = 0 /\ out = <<>> /\ err = FALSE /\ step = "done"

BagOf(q) == [v \in ToSet(q) |-> Cardinality({ i \in 1..Len(q) : q[i] = v })]
IsSubMultiset(a, b) == \A v \in ToSet(a) : v \in ToSet(b) /\ BagOf(a)[v] <= BagOf(b)[v]

TrSubsample == /\ HasEvent("Subsample") /\ UNCHANGED vars
               /\ LET o == [j \in 1..Len(E.idx) |-> <<E.idx[j] + 1, E.cnt[j]>>]
                  IN Consume(Named([
                       oversample_not_refused |-> E.n > SumSeq(E.counts) /\ ~E.raised,
                       raised |-> E.n <= SumSeq(E.counts) /\ E.raised,
                       lengths_differ |-> ~E.raised /\ Len(E.idx) # Len(E.cnt),
                       not_a_reachable_outcome |-> ~E.raised /\ E.n <= SumSeq(E.counts) /\ Len(E.idx) = Len(E.cnt) /\ ~ValidOutcome(E.counts, E.n, o) ]))
TrDownsample == /\ HasEvent("Downsample") /\ UNCHANGED vars
                /\ Consume(Named([
                     raised |-> E.raised,
                     changed_although_small |-> ~E.raised /\ (E.none \/ Len(E.items) <= E.ms) /\ ~(E.same /\ E.ret = E.items),
                     wrong_size |-> ~E.raised /\ ~E.none /\ Len(E.items) > E.ms /\ Len(E.ret) # E.ms,
                     not_a_sub_multiset |-> ~E.raised /\ ~IsSubMultiset(E.ret, E.items) ]))
TrPowerSample == /\ HasEvent("PowerSample") /\ UNCHANGED vars
                 /\ Consume(Named([
                      raised |-> E.raised,
                      wrong_length |-> ~E.raised /\ Len(E.ret) # E.size,
                      not_integer_valued |-> ~E.raised /\ \E i \in 1..Len(E.ret) : E.ret[i] = -1,
                      below_xmin |-> ~E.raised /\ \E i \in 1..Len(E.ret) : E.ret[i] # -1 /\ E.ret[i] < E.xmin ]))
TrMleSelect == /\ HasEvent("MleSelect") /\ UNCHANGED vars
               /\ Consume(Named([
                    harness_selection_differs |-> E.sel # SelectSeq(E.c, LAMBDA x : x * E.cmin[2] >= E.cmin[1]) ]))
TraceNext == TrSubsample \/ TrDownsample \/ TrPowerSample \/ TrMleSelect
TraceSpec == TraceInit /\ [][TraceNext]_<<vars, xvars>>
SessionDone == l > Len(Events)
EmitVerdict == SessionDone => PrintT(ToJson([sid |-> Sessions[s].sid, n |-> Len(Events), verdict |-> verdict]))
=============================================================================
