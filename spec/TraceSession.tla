----------------------------- MODULE TraceSession -----------------------------
(* Trace validation of API sessions (C20).  One event per public call made in ONE   *)
(* interpreter:                                                                      *)
(*   Call {cls, seed, raised_as_fresh, args_untouched, equals_fresh, ticks_changed,  *)
(*         dflt_changed, cal_ok}                                                      *)
(* The machine of Session.tla takes the action of the call's class; the logged        *)
(* observations are compared with it: arguments untouched and result equal to the     *)
(* result of the same call alone in a fresh process are API-level clauses, the        *)
(* projection of the module state (dict defaults, parameter block) against the        *)
(* model's mod is drift level.                                                        *)
EXTENDS Session, Json, IOUtils, TLCExt, SequencesExt
Sessions == JsonDeserialize(IOEnv.PV_TRACE_FILE)
VARIABLES s, l, verdict
xvars == <<s, l, verdict>>
Events == Sessions[s].events
E == Events[l]
HasEvent(op) == l <= Len(Events) /\ Events[l].op = op
Named(c) == { nm \in DOMAIN c : c[nm] }
TraceInit == /\ s \in 1..Len(Sessions) /\ l = 1 /\ verdict = <<>> /\ Init

TrCall == /\ HasEvent("Call")
          /\ IF E.cls = "random" THEN SeededCall(E.seed) ELSE Call(E.cls)
          /\ verdict' = Append(verdict, [l |-> l, op |-> E.op, failed |-> Named([
                 argument_mutated |-> ~E.args_untouched,
                 result_differs_from_fresh_process |-> ~E.equals_fresh,
                 raised_unlike_fresh_process |-> ~E.raised_as_fresh,
                 model_predicts_history_dependence |-> results'[Len(results')][1] # results'[Len(results')][2],
                 \* reported at the call that CHANGES a default although the model says this class writes none
                 default_argument_modified |-> (E.ticks_changed /\ mod'.ticks = mod.ticks) \/ (E.dflt_changed /\ mod'.dflt = mod.dflt),
                 parameter_block_not_as_predicted |-> ~E.cal_ok ])])
          /\ l' = l + 1 /\ s' = s
TraceNext == TrCall
TraceSpec == TraceInit /\ [][TraceNext]_<<vars, xvars>>
SessionDone == l > Len(Events)
EmitVerdict == SessionDone => PrintT(ToJson([sid |-> Sessions[s].sid, n |-> Len(Events), verdict |-> verdict]))
=============================================================================
