SPECIFICATION Spec
CONSTANTS
  Letters = {0, 1}
  MaxLen = 3
  MaxN = 2
  MaxN2 = 0
  Ks = {1, 2}
  Engines = {"symdel"}
  Modes = {"lev"}
  CdFams = {"none"}
  MaxCs = {1000000}
  Comps = {1}
  MaxLookups = 0
  AsFound = {"mut_sd_kminus1"}
INVARIANT TypeOK
INVARIANT Exact
INVARIANT NoRepeat
INVARIANT NoSelf
INVARIANT Symmetric
INVARIANT SymDelLemma
INVARIANT DenseExact
