SPECIFICATION Spec
CONSTANTS
  Letters = {0, 1}
  MaxLen = 2
  MaxN = 2
  Ks = {1, 2}
  Vals = {0, 3, 7}
  MaxTs = {0, 5, 9, 20}
  Chains = {1, 2}
INVARIANT ResultExact
INVARIANT ResultSymmetric
INVARIANT OnlyRadii
