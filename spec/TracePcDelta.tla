----------------------------- MODULE TracePcDelta -----------------------------
(* Trace validation of pcDelta / load_pcDelta_background (C05).                   *)
(*   Call       {raised, ret, special}   pcDelta on the session's inp (no          *)
(*                                       down-sampling): the machine of PcDelta is  *)
(*                                       stepped silently, ret (snapped rationals)  *)
(*                                       compared with its result                   *)
(*   Sampled    {n, n2, ms, total}       pcDelta(..., maxseqs=ms, normalize=False)   *)
(*                                       with edges covering every distance: the     *)
(*                                       total must be the number of pairs of        *)
(*                                       min(N, maxseqs) elements                    *)
(*   Background {index, bins, nrows}     bundled table and its bin edges             *)
EXTENDS PcDelta, Json, IOUtils, TLCExt
Sessions == JsonDeserialize(IOEnv.PV_TRACE_FILE)
VARIABLES s, l, verdict
xvars == <<s, l, verdict>>
Events == Sessions[s].events
E == Events[l]
HasEvent(op) == l <= Len(Events) /\ Events[l].op = op
Consume(failed) == /\ verdict' = Append(verdict, [l |-> l, op |-> E.op, failed |-> failed])
                   /\ l' = l + 1 /\ s' = s
Named(c) == { n \in DOMAIN c : c[n] }

TraceInit == /\ s \in 1..Len(Sessions) /\ l = 1 /\ verdict = <<>>
             /\ inp = Sessions[s].inp
             /\ sub = <<>> /\ sub2 = <<>> /\ metric = "" /\ dists = <<>> /\ hist = <<>> /\ res = <<>> /\ step = "start"

TrSilent == /\ HasEvent("Call") /\ step # "done" /\ Next /\ UNCHANGED xvars

SameValue(r, x, sp) == IF r = NaN THEN sp = "nan" ELSE (sp = "" /\ REq(r, x))
TrCall == /\ HasEvent("Call") /\ step = "done" /\ UNCHANGED vars
          /\ Consume(Named([
               raised |-> E.raised,
               length_wrong |-> ~E.raised /\ Len(E.ret) # Len(res),
               bin_wrong |-> ~E.raised /\ Len(E.ret) = Len(res) /\ \E b \in 1..Len(res) : ~SameValue(res[b], E.ret[b], E.special[b]) ]))

Min2n(a, b) == IF a < b THEN a ELSE b
Pairs(k) == (k * (k - 1)) \div 2
TrSampled == /\ HasEvent("Sampled") /\ UNCHANGED vars
             /\ Consume(Named([
                  raised |-> E.raised,
                  \* a sub-sample of distinct elements holds no pair at distance 0 (positions are drawn without replacement)
                  element_drawn_twice |-> ~E.raised /\ E.distinct /\ E.zero # 0,
                  sample_size_wrong |-> ~E.raised /\ E.total #
                      (IF E.n2 = 0 THEN Pairs(IF E.ms = 0 THEN E.n ELSE Min2n(E.n, E.ms))
                       ELSE (IF E.ms = 0 THEN E.n ELSE Min2n(E.n, E.ms)) * (IF E.ms = 0 THEN E.n2 ELSE Min2n(E.n2, E.ms))) ]))

TrBackground == /\ HasEvent("Background") /\ UNCHANGED vars
                /\ Consume(Named([
                     index_not_consecutive_from_zero |-> E.index # [i \in 1..Len(E.index) |-> i - 1],
                     bins_not_index_plus_last |-> E.bins # [i \in 1..(Len(E.index) + 1) |-> i - 1],
                     rows_misaligned |-> E.nrows # Len(E.index) \/ E.pcdelta_len # Len(E.index) ]))

\* long homopolymer strings <<letter, length>> (hundreds of letters): counts per bin from the closed-form distances
TrHomo == /\ HasEvent("Homo") /\ UNCHANGED vars
          /\ LET x == E.x
                 y == E.y
                 cnt(b) == IF Len(y) = 0
                           THEN Cardinality({ ij \in (1..Len(x)) \X (1..Len(x)) : ij[1] < ij[2] /\ InBin(HomoDist(x[ij[1]], x[ij[2]]), E.edges, b) })
                           ELSE Cardinality({ ij \in (1..Len(x)) \X (1..Len(y)) : InBin(HomoDist(x[ij[1]], y[ij[2]]), E.edges, b) })
             IN Consume(Named([
                  raised |-> E.raised,
                  length_wrong |-> ~E.raised /\ Len(E.hist) # Len(E.edges) - 1,
                  long_string_bin_wrong |-> ~E.raised /\ Len(E.hist) = Len(E.edges) - 1 /\ \E b \in 1..Len(E.hist) : E.hist[b] # cnt(b) ]))

\* large collections (thousands of elements, beyond any size threshold of the implementation) given as distinct strings u with
\* multiplicities: mx[i] copies of u[i] in the first collection, my[i] copies in the second (all zero = one-collection form).
\* Pairs of copies of the same string are at distance 0; the count of a bin follows from the distances of the distinct strings.
SumOver(S, f(_)) == FoldLeft(LAMBDA acc, x : acc + f(x), 0, SetToSeq(S))
TrBig == /\ HasEvent("Big") /\ UNCHANGED vars
         /\ LET u == E.u
                m == Len(u)
                two == \E i \in 1..m : E.my[i] > 0
            IN \E D \in { [i \in 1..m |-> [j \in 1..m |-> IF i = j THEN 0 ELSE Lev(u[i], u[j])]] } :
               LET cnt(b) == IF two
                             THEN SumOver({ ij \in (1..m) \X (1..m) : InBin(D[ij[1]][ij[2]], E.edges, b) }, LAMBDA ij : E.mx[ij[1]] * E.my[ij[2]])
                             ELSE SumOver({ ij \in (1..m) \X (1..m) : ij[1] < ij[2] /\ InBin(D[ij[1]][ij[2]], E.edges, b) }, LAMBDA ij : E.mx[ij[1]] * E.mx[ij[2]])
                                  + (IF InBin(0, E.edges, b) THEN SumOver(1..m, LAMBDA i : (E.mx[i] * (E.mx[i] - 1)) \div 2) ELSE 0)
               IN Consume(Named([
                    raised |-> E.raised,
                    length_wrong |-> ~E.raised /\ Len(E.hist) # Len(E.edges) - 1,
                    large_input_bin_wrong |-> ~E.raised /\ Len(E.hist) = Len(E.edges) - 1 /\ \E b \in 1..Len(E.hist) : E.hist[b] # cnt(b) ]))

TraceNext == TrSilent \/ TrCall \/ TrSampled \/ TrBackground \/ TrHomo \/ TrBig
TraceSpec == TraceInit /\ [][TraceNext]_<<vars, xvars>>
SessionDone == l > Len(Events)
EmitVerdict == SessionDone => PrintT(ToJson([sid |-> Sessions[s].sid, n |-> Len(Events), verdict |-> verdict]))
=============================================================================
