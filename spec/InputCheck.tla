------------------------------ MODULE InputCheck ------------------------------
(***************************************************************************)
(* Argument validation shared by all search engines (_check_common_input   *)
(* in pyrepseq/nn.py) as a guard sequence: one action per assertion, in    *)
(* the order of the code.  The input is a vector of argument CLASSES; the  *)
(* harness instantiates every class with concrete Python values.           *)
(*                                                                         *)
(* Property C10 (validation part): a call is rejected with an error iff    *)
(* one of its arguments belongs to an invalid class:                       *)
(*   empty input, non-string element, not iterable, max_edits < 1 or       *)
(*   non-integer, n_cpu < 1, unknown output_type, non-string element in    *)
(*   the second collection.                                                *)
(***************************************************************************)
EXTENDS Naturals, Sequences, TLC, Json

SeqsC    == {"ok", "ok_npstr", "empty", "nonstring_elem", "none_elem", "not_iterable"}
EditsC   == {"one", "two", "zero", "negative", "float_1_5", "string"}
ReturnsC == {"none", "one"}
NcpuC    == {"one", "zero", "negative"}
OutC     == {"triplets", "coo_matrix", "ndarray", "unknown", "none"}
Seqs2C   == {"none", "ok", "nonstring_elem"}

VARIABLES argc, step, err
vars == <<argc, step, err>>

Steps == <<"len", "elems", "max_edits", "max_returns", "n_cpu", "custom", "max_cust", "output_type", "seqs2", "done">>

Init == /\ argc \in [seqs : SeqsC, max_edits : EditsC, max_returns : ReturnsC, n_cpu : NcpuC,
                     output_type : OutC, seqs2 : Seqs2C]
        /\ step = 1
        /\ err = FALSE

\* does the assertion of step number st fail for this argument vector?
Fails(a, st) ==
    CASE Steps[st] = "len"         -> a.seqs \in {"empty", "not_iterable"}
      [] Steps[st] = "elems"       -> a.seqs \in {"nonstring_elem", "none_elem"}
      [] Steps[st] = "max_edits"   -> a.max_edits \notin {"one", "two"}
      [] Steps[st] = "max_returns" -> FALSE
      [] Steps[st] = "n_cpu"       -> a.n_cpu # "one"
      [] Steps[st] = "custom"      -> FALSE
      [] Steps[st] = "max_cust"    -> FALSE
      [] Steps[st] = "output_type" -> a.output_type \in {"unknown", "none"}
      [] Steps[st] = "seqs2"       -> a.seqs2 = "nonstring_elem"
      [] OTHER -> FALSE

Check == /\ ~err /\ Steps[step] # "done"
         /\ IF Fails(argc, step) THEN err' = TRUE /\ step' = step
            ELSE err' = FALSE /\ step' = step + 1
         /\ UNCHANGED argc

Next == Check
Spec == Init /\ [][Next]_vars

Valid(a) == /\ a.seqs \in {"ok", "ok_npstr"}
            /\ a.max_edits \in {"one", "two"}
            /\ a.n_cpu = "one"
            /\ a.output_type \in {"triplets", "coo_matrix", "ndarray"}
            /\ a.seqs2 # "nonstring_elem"

Terminal == err \/ Steps[step] = "done"
RejectedIffInvalid == Terminal => (err <=> ~Valid(argc))
\* the first failing assertion decides: an error state never advances
ErrorIsFinal == [][err => (err' /\ step' = step)]_vars

EmitCase == Terminal => PrintT(ToJson([argc |-> argc, err |-> err, at |-> Steps[step]]))
=============================================================================
