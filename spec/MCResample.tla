----------------------------- MODULE MCResample -----------------------------
EXTENDS Resample, Json
EmitCase == /\ (Done /\ kind = "subsample") =>
                   PrintT(ToJson([kind |-> kind, counts |-> counts, want |-> want, err |-> err, out |-> out, weight |-> IF err THEN 0 ELSE Weight(counts, out)]))
            \* downsample: one line per terminal state (m items, maxseqs = want, the kept positions in output order)
            /\ (Done /\ kind = "downsample") =>
                   PrintT(ToJson([kind |-> kind, m |-> Len(counts), want |-> want, kept |-> out]))
=============================================================================
