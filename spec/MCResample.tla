----------------------------- MODULE MCResample -----------------------------
EXTENDS Resample, Json
EmitCase == (Done /\ kind = "subsample") =>
    PrintT(ToJson([kind |-> kind, counts |-> counts, want |-> want, err |-> err, out |-> out, weight |-> IF err THEN 0 ELSE Weight(counts, out)]))
=============================================================================
