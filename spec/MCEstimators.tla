---------------------------- MODULE MCEstimators ----------------------------
EXTENDS Estimators, Json
EmitCase == Done => PrintT(ToJson([kind |-> kind, n |-> n, m |-> m, res |-> res]))
=============================================================================
