----------------------------- MODULE TraceMetrics -----------------------------
(* Trace validation for the string metrics (C08) on inputs beyond the exhaustive    *)
(* bounds.  Events:                                                                 *)
(*   Matrix {X, Y, w, D}      calc_cdist_matrix / cdist: TLC recomputes every entry  *)
(*                            with the fold DP (medium lengths)                      *)
(*   Vector {X, w, vec}       calc_pdist_vector / pdist: layout + values             *)
(*   Closed {fam, n, m, w, d} long strings (up to 400 letters) from the closed-form  *)
(*                            families, which MCMetrics!ClosedFormsOK validates      *)
(*                            against the DP for all small n, m                      *)
EXTENDS Metrics, Json, IOUtils, TLCExt
Sessions == JsonDeserialize(IOEnv.PV_TRACE_FILE)
VARIABLES s, l, verdict
xvars == <<s, l, verdict>>
Events == Sessions[s].events
E == Events[l]
HasEvent(op) == l <= Len(Events) /\ Events[l].op = op
Consume(failed) == /\ verdict' = Append(verdict, [l |-> l, op |-> E.op, failed |-> failed])
                   /\ l' = l + 1 /\ s' = s
Named(c) == { n \in DOMAIN c : c[n] }

TraceInit == /\ s \in 1..Len(Sessions) /\ l = 1 /\ verdict = <<>>
             /\ kind = "trace" /\ X = <<>> /\ Y = <<>> /\ w = <<1, 1, 1>> /\ D = <<>> /\ vec = <<>> /\ step = "start"

TrMatrix == /\ HasEvent("Matrix") /\ UNCHANGED vars
            /\ Consume(Named([
                 raised |-> E.raised,
                 shape_wrong |-> ~E.raised /\ ~(Len(E.D) = Len(E.X) /\ \A i \in 1..Len(E.D) : Len(E.D[i]) = Len(E.Y)),
                 entry_wrong |-> ~E.raised /\ Len(E.D) = Len(E.X) /\ \E i \in 1..Len(E.X) : \E j \in 1..Len(E.Y) :
                                    Len(E.D[i]) = Len(E.Y) /\ E.D[i][j] # WLev(E.X[i], E.Y[j], E.w[1], E.w[2], E.w[3]) ]))
TrVector == /\ HasEvent("Vector") /\ UNCHANGED vars
            /\ Consume(Named([
                 raised |-> E.raised,
                 length_wrong |-> ~E.raised /\ Len(E.vec) # (Len(E.X) * (Len(E.X) - 1)) \div 2,
                 entry_wrong |-> ~E.raised /\ Len(E.vec) = (Len(E.X) * (Len(E.X) - 1)) \div 2 /\
                                    \E i, j \in 1..Len(E.X) : i < j /\
                                       E.vec[CondIndex(Len(E.X), i - 1, j - 1) + 1] # WLev(E.X[i], E.X[j], E.w[1], E.w[2], E.w[3]) ]))
TrClosed == /\ HasEvent("Closed") /\ UNCHANGED vars
            /\ Consume(Named([
                 raised |-> E.raised,
                 long_string_distance_wrong |-> ~E.raised /\ E.d #
                     (CASE E.fam = "AnBm" -> CF_AnBm(E.n, E.m, E.w)
                        [] E.fam = "AnAm" -> CF_AnAm(E.n, E.m, E.w)
                        [] E.fam = "AnBmToBm" -> CF_AnBmToBm(E.n, E.m, E.w)) ]))
TraceNext == TrMatrix \/ TrVector \/ TrClosed
TraceSpec == TraceInit /\ [][TraceNext]_<<vars, xvars>>
SessionDone == l > Len(Events)
EmitVerdict == SessionDone => PrintT(ToJson([sid |-> Sessions[s].sid, n |-> Len(Events), verdict |-> verdict]))
=============================================================================
