---------------------------- MODULE TraceTcrMetric ----------------------------
(* Trace validation of the TcrLevenshtein family (C09).  Session = {sid, cls, wts,  *)
(* inclass, A, B, events}.  The machine of TcrMetric.tla is stepped silently        *)
(* (Validate, ExpandV, ColumnCdist per column, Finish); then                        *)
(*   Cdist {raised, value_error, D}    calc_cdist_matrix(A, B)                       *)
(*   Pdist {raised, value_error, vec}  calc_pdist_vector(A) (session has B = A):     *)
(*                                     the condensed upper triangle of the machine's  *)
(*                                     matrix, row-major                              *)
EXTENDS TcrMetric, TLCExt
Sessions == JsonDeserialize(IOEnv.PV_TRACE_FILE)
VARIABLES s, l, verdict
xvars == <<s, l, verdict>>
Events == Sessions[s].events
E == Events[l]
HasEvent(op) == l <= Len(Events) /\ Events[l].op = op
Consume(failed) == /\ verdict' = Append(verdict, [l |-> l, op |-> E.op, failed |-> failed])
                   /\ l' = l + 1 /\ s' = s
Named(c) == { n \in DOMAIN c : c[n] }

TraceInit == /\ s \in 1..Len(Sessions) /\ l = 1 /\ verdict = <<>>
             /\ cls = Sessions[s].cls /\ wts = Sessions[s].wts /\ inclass = Sessions[s].inclass
             /\ A = Sessions[s].A /\ B = Sessions[s].B
             /\ cols = <<>> /\ todo = <<>> /\ acc = <<>> /\ err = FALSE /\ step = "start"

TrSilent == /\ l <= Len(Events) /\ step # "done" /\ Next /\ UNCHANGED xvars

TrCdist == /\ HasEvent("Cdist") /\ step = "done" /\ UNCHANGED vars
           /\ Consume(Named([
                not_rejected_with_value_error |-> err /\ ~E.value_error,
                raised |-> ~err /\ E.raised,
                shape_wrong |-> ~err /\ ~E.raised /\ ~(Len(E.D) = Len(A) /\ \A i \in 1..Len(E.D) : Len(E.D[i]) = Len(B)),
                entry_wrong |-> ~err /\ ~E.raised /\ Len(E.D) = Len(A) /\ \E i \in 1..Len(A) : \E j \in 1..Len(B) :
                                   Len(E.D[i]) = Len(B) /\ E.D[i][j] # acc[i][j],
                input_modified |-> E.modified ]))

Upper(M) == FoldLeft(LAMBDA v, i : v \o [t \in 1..(Len(M) - i) |-> M[i][i + t]], <<>>, [i \in 1..(Len(M) - 1) |-> i])
TrPdist == /\ HasEvent("Pdist") /\ step = "done" /\ UNCHANGED vars
           /\ Consume(Named([
                not_rejected_with_value_error |-> err /\ ~E.value_error,
                raised |-> ~err /\ E.raised,
                not_condensed_upper_triangle |-> ~err /\ ~E.raised /\ E.vec # Upper(acc),
                input_modified |-> E.modified ]))

TraceNext == TrSilent \/ TrCdist \/ TrPdist
TraceSpec == TraceInit /\ [][TraceNext]_<<vars, xvars>>
SessionDone == l > Len(Events)
EmitVerdict == SessionDone => PrintT(ToJson([sid |-> Sessions[s].sid, n |-> Len(Events), verdict |-> verdict]))
=============================================================================
