------------------------------ MODULE MCPcDelta ------------------------------
EXTENDS PcDelta, Json
P0 == { <<0, 1>> }
P3 == { <<0, 1>>, <<1, 2>>, <<1, 1>> }
EmitCase == Done => PrintT(ToJson([inp |-> inp, sub |-> sub, sub2 |-> sub2, hist |-> hist, res |-> res]))
=============================================================================
