------------------------------ MODULE MCPcDelta ------------------------------
EXTENDS PcDelta, Json
P0 == { <<0, 1>> }
P3 == { <<0, 1>>, <<1, 2>>, <<1, 1>> }
HomoClosedFormOK == \A a, b \in {0, 1} : \A n, m \in 0..5 :
    Lev([i \in 1..n |-> a], [i \in 1..m |-> b]) = HomoDist(<<a, n>>, <<b, m>>)
HomoClosedForm == (step = "start") => HomoClosedFormOK
EmitCase == Done => PrintT(ToJson([inp |-> inp, sub |-> sub, sub2 |-> sub2, hist |-> hist, res |-> res]))
=============================================================================
