------------------------------ MODULE MCGrouped ------------------------------
EXTENDS Grouped, Json
V1 == { <<>> }
V2 == { <<>>, <<0>> }
E1 == { <<0, 1, 2>> }
E3 == { <<0, 1, 2>>, <<1, 2>> }           \* the second vector leaves pairs of equal sequences outside every bin
E2 == { <<0, 1, 2>>, <<0, 2>>, <<1, 2, 3>> }
EmitCase == Done => PrintT(ToJson([fn |-> fn, tab |-> tab, opt |-> opt, kept |-> kept, res |-> res]))
=============================================================================
