SPECIFICATION Spec
CONSTANTS
  MaxAbs = 130
INVARIANT AddOK
INVARIANT SubOK
INVARIANT MulOK
INVARIANT CmpOK
INVARIANT RoundTrip
INVARIANT QAddOK
INVARIANT QSubOK
INVARIANT QMulOK
INVARIANT QCmpOK
