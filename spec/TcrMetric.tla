------------------------------ MODULE TcrMetric ------------------------------
(***************************************************************************)
(* The TcrLevenshtein family (pyrepseq/metric/tcr_metric) - property C09.  *)
(*                                                                         *)
(* A TCR row is <<va, c3a, vb, c3b>>: V allele numbers (indices into the   *)
(* gene table VData, which the harness fills from the gene reference and   *)
(* hands over as data) and CDR3 strings.  CDR1 / CDR2 of a row are those   *)
(* of its V allele, the empty string when the allele has no such loop.     *)
(*                                                                         *)
(* Machine (one action per stage of calc_cdist_matrix):                    *)
(*   Validate      anything that is not a table with a TCR column is        *)
(*                 rejected (ValueError)                                   *)
(*   ExpandV       all-CDR metrics: CDR1 / CDR2 looked up from the V allele *)
(*   ColumnCdist   one per column in scope: weighted Levenshtein cdist,    *)
(*                 scaled by the chain and the loop weight SELECTED FROM   *)
(*                 THE CHARACTERS OF THE COLUMN NAME ('A'/'B', '1'/'2'/'3')*)
(*   (sum)         accumulated into the result                              *)
(***************************************************************************)
EXTENDS Strings, Json, IOUtils

\* VData[chain][v] = <<cdr1, cdr2>> (chain 1 = alpha, 2 = beta), strings as code sequences: the gene table, read by the
\* harness from the gene reference (tidytcells) and handed over as data (a plain definition, so TLC evaluates it once)
VData == JsonDeserialize(IOEnv.PV_VDATA)

CONSTANTS Cdr3s,         \* set of CDR3 strings
          MaxRows, MaxRowsB,
          Classes,       \* subset of the six metric names
          EditWs, ChainWs, LoopWs,   \* sets of weight triples / pairs / triples
          InputClasses,  \* {"table"} plus invalid classes
          Mutations

VARIABLES cls, wts, inclass, A, B, cols, todo, acc, err, step
vars == <<cls, wts, inclass, A, B, cols, todo, acc, err, step>>

NV(chain) == Len(VData[chain])
RowSet == (1..NV(1)) \X Cdr3s \X (1..NV(2)) \X Cdr3s
Tables(n) == UNION { [1..m -> RowSet] : m \in 1..n }

\* the string a row holds in a column
Cell(r, col) == CASE col = "CDR3A" -> r[2]
                  [] col = "CDR3B" -> r[4]
                  [] col = "CDR1A" -> VData[1][r[1]][1]
                  [] col = "CDR2A" -> VData[1][r[1]][2]
                  [] col = "CDR1B" -> VData[2][r[3]][1]
                  [] col = "CDR2B" -> VData[2][r[3]][2]

\* scope of each class: chains x loops (order as in _get_columns_to_compare)
ChainsOf(c) == CASE c \in {"AlphaCdr3Levenshtein", "AlphaCdrLevenshtein"} -> <<"A">>
                 [] c \in {"BetaCdr3Levenshtein", "BetaCdrLevenshtein"} -> <<"B">>
                 [] OTHER -> <<"A", "B">>
LoopsOf(c) == IF c \in {"AlphaCdrLevenshtein", "BetaCdrLevenshtein", "CdrLevenshtein"} THEN <<"CDR3", "CDR1", "CDR2">> ELSE <<"CDR3">>
ColumnsOf(c) == FoldLeft(LAMBDA acc1, lp : acc1 \o [k \in 1..Len(ChainsOf(c)) |-> <<lp, ChainsOf(c)[k]>>], <<>>, LoopsOf(c))
ColName(lc) == CASE lc = <<"CDR3", "A">> -> "CDR3A" [] lc = <<"CDR3", "B">> -> "CDR3B"
                 [] lc = <<"CDR1", "A">> -> "CDR1A" [] lc = <<"CDR1", "B">> -> "CDR1B"
                 [] lc = <<"CDR2", "A">> -> "CDR2A" [] lc = <<"CDR2", "B">> -> "CDR2B"

\* weights as the code selects them from the column name
ChainWeight(lc, w) == IF lc[2] = "A" THEN (IF "swap_chain_weights" \in Mutations THEN w.chain[2] ELSE w.chain[1])
                      ELSE (IF "swap_chain_weights" \in Mutations THEN w.chain[1] ELSE w.chain[2])
LoopWeight(lc, w) == CASE lc[1] = "CDR1" -> w.loop[1] [] lc[1] = "CDR2" -> w.loop[2] [] lc[1] = "CDR3" -> w.loop[3]

\* ---- reference semantics: the stated weighted sum over chains and loops
RowDist(c, w, r, q) ==
    FoldLeft(LAMBDA s, lc : s + (IF lc[2] = "A" THEN w.chain[1] ELSE w.chain[2])
                              * (CASE lc[1] = "CDR1" -> w.loop[1] [] lc[1] = "CDR2" -> w.loop[2] [] lc[1] = "CDR3" -> w.loop[3])
                              * WLev(Cell(r, ColName(lc)), Cell(q, ColName(lc)), w.edit[1], w.edit[2], w.edit[3]),
             0, ColumnsOf(c))

Weightings == { [edit |-> e, chain |-> c, loop |-> l] : e \in EditWs, c \in ChainWs, l \in LoopWs }

\* which weights a class accepts (constructor signatures): the others are 1
HasChainWeights(c) == c \in {"Cdr3Levenshtein", "CdrLevenshtein"}
HasLoopWeights(c) == c \in {"AlphaCdrLevenshtein", "BetaCdrLevenshtein", "CdrLevenshtein"}

Init == /\ cls \in Classes /\ wts \in Weightings /\ inclass \in InputClasses
        /\ (HasChainWeights(cls) \/ wts.chain = <<1, 1>>)
        /\ (HasLoopWeights(cls) \/ wts.loop = <<1, 1, 1>>)
        /\ A \in (IF inclass = "table" THEN Tables(MaxRows) ELSE {<<>>})
        /\ B \in (IF inclass = "table" THEN Tables(MaxRowsB) \cup {A} ELSE {<<>>})        \* incl. the self-comparison cdist(X, X)
        /\ cols = <<>> /\ todo = <<>> /\ acc = <<>> /\ err = FALSE /\ step = "start"

Validate == /\ step = "start"
            /\ IF inclass = "table"
               THEN err' = FALSE /\ step' = "valid"
               ELSE err' = TRUE /\ step' = "done"            \* ValueError
            /\ UNCHANGED <<cls, wts, inclass, A, B, cols, todo, acc>>

\* (the expansion works on a copy: A and B themselves never change - see InputsUnchanged)
ExpandV == /\ step = "valid"
           /\ cols' = ColumnsOf(cls)
           /\ todo' = ColumnsOf(cls)
           /\ acc' = [i \in 1..Len(A) |-> [j \in 1..Len(B) |-> 0]]
           /\ step' = "columns"
           /\ UNCHANGED <<cls, wts, inclass, A, B, err>>

ColumnCdist == /\ step = "columns" /\ todo # <<>>
               /\ acc' = [i \in 1..Len(A) |-> [j \in 1..Len(B) |->
                             acc[i][j] + ChainWeight(Head(todo), wts) * LoopWeight(Head(todo), wts)
                                         * WLev(Cell(A[i], ColName(Head(todo))), Cell(B[j], ColName(Head(todo))),
                                                wts.edit[1], wts.edit[2], wts.edit[3])]]
               /\ todo' = Tail(todo)
               /\ UNCHANGED <<cls, wts, inclass, A, B, cols, err, step>>

Finish == /\ step = "columns" /\ todo = <<>>
          /\ step' = "done"
          /\ UNCHANGED <<cls, wts, inclass, A, B, cols, todo, acc, err>>

Next == Validate \/ ExpandV \/ ColumnCdist \/ Finish
Spec == Init /\ [][Next]_vars
Done == step = "done"

(***************************************************************************)
(* Properties                                                              *)
(***************************************************************************)
\* the stated weighted sum, entry by entry; depends only on the two rows
CdistIsWeightedSum == (Done /\ ~err) =>
    \A i \in 1..Len(A), j \in 1..Len(B) : acc[i][j] = RowDist(cls, wts, A[i], B[j])
\* Cdr3 = alpha_weight * AlphaCdr3 + beta_weight * BetaCdr3 (likewise for the all-CDR metrics), at unit chain weights of the parts
Decomposition == (Done /\ ~err /\ cls \in {"Cdr3Levenshtein", "CdrLevenshtein"}) =>
    \A i \in 1..Len(A), j \in 1..Len(B) :
        acc[i][j] = wts.chain[1] * RowDist(IF cls = "Cdr3Levenshtein" THEN "AlphaCdr3Levenshtein" ELSE "AlphaCdrLevenshtein",
                                           [wts EXCEPT !.chain = <<1, 1>>], A[i], B[j])
                  + wts.chain[2] * RowDist(IF cls = "Cdr3Levenshtein" THEN "BetaCdr3Levenshtein" ELSE "BetaCdrLevenshtein",
                                           [wts EXCEPT !.chain = <<1, 1>>], A[i], B[j])
\* each of the six columns gets (the chain weight of its chain, the loop weight of its loop)
WeightTable == \A lc \in { <<l, c>> : l \in {"CDR1", "CDR2", "CDR3"}, c \in {"A", "B"} } :
    /\ ChainWeight(lc, wts) = (IF lc[2] = "A" THEN wts.chain[1] ELSE wts.chain[2])
    /\ LoopWeight(lc, wts) = (CASE lc[1] = "CDR1" -> wts.loop[1] [] lc[1] = "CDR2" -> wts.loop[2] [] lc[1] = "CDR3" -> wts.loop[3])
RejectIffNotTable == Done => (err <=> inclass # "table")
InputsUnchanged == [][A' = A /\ B' = B]_vars
=============================================================================
