------------------------------ MODULE MCBigInt ------------------------------
(* Self-test of BigInt.tla with Base = 10: every pair of integers in -MaxAbs..MaxAbs is pushed through addition, subtraction,  *)
(* multiplication and comparison and the result is compared with TLC's own integers (carries, borrows, sign cases, zero);   *)
(* rationals are compared with Rational.tla.                                                                                *)
EXTENDS Integers, Sequences, TLC, Rational
CONSTANT MaxAbs
B == INSTANCE BigInt WITH Base <- 10
VARIABLES a, b
vars == <<a, b>>
Init == a \in (0 - MaxAbs)..MaxAbs /\ b \in (0 - MaxAbs)..MaxAbs
Next == UNCHANGED vars
Spec == Init /\ [][Next]_vars
Sign(x) == IF x < 0 THEN -1 ELSE IF x > 0 THEN 1 ELSE 0
AddOK == B!BVal(B!BAdd(B!BOf(a), B!BOf(b))) = a + b /\ B!WellFormed(B!BAdd(B!BOf(a), B!BOf(b)))
SubOK == B!BVal(B!BSub(B!BOf(a), B!BOf(b))) = a - b /\ B!WellFormed(B!BSub(B!BOf(a), B!BOf(b)))
MulOK == B!BVal(B!BMul(B!BOf(a), B!BOf(b))) = a * b /\ B!WellFormed(B!BMul(B!BOf(a), B!BOf(b)))
CmpOK == B!BCmp(B!BOf(a), B!BOf(b)) = Sign(a - b)
RoundTrip == B!BVal(B!BOf(a)) = a /\ B!WellFormed(B!BOf(a))
\* rationals a/(|b|+1) and b/(|a|+2): sum, product and order agree with Rational.tla
Qa == B!QFrac(a, RAbs(b) + 1)
Qb == B!QFrac(b, RAbs(a) + 2)
Ra == RFrac(a, RAbs(b) + 1)
Rb == RFrac(b, RAbs(a) + 2)
QAddOK == B!QEq(B!QAdd(Qa, Qb), B!QOfRat(RAdd(Ra, Rb)))
QSubOK == B!QEq(B!QSub(Qa, Qb), B!QOfRat(RSub(Ra, Rb)))
QMulOK == B!QEq(B!QMul(Qa, Qb), B!QOfRat(RMul(Ra, Rb)))
QCmpOK == (B!QCmp(Qa, Qb) < 0) = RLt(Ra, Rb)
=============================================================================
