SPECIFICATION Spec
CONSTANTS
  A = 2
  L = 2
INVARIANT AffixLemma
INVARIANT LengthLemma
INVARIANT CopyLemma
