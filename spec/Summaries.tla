------------------------------ MODULE Summaries ------------------------------
(***************************************************************************)
(* Summaries and plots (pyrepseq/util.py, pyrepseq/plotting.py) - property *)
(* C19.  What a plot "encodes" is stated on the data read back from the    *)
(* artists (Line2D data, scatter offsets / colour array, ClusterGrid.data2d,*)
(* dendrogram order), never on pixels.                                     *)
(*                                                                         *)
(* Machines (variable kind):                                               *)
(*  "align"  per-position count matrix (CountColumn per position: the      *)
(*           logomaker matrix), from which the regular expression          *)
(*           (RegexColumn per position), the consensus and the logo counts *)
(*           are derived                                                   *)
(*  "rank"   rankfrequency: DropMissing, Normalise, SortDescending, Pair   *)
(*  "scatter" density_scatter(discrete): UniquePoints with multiplicities  *)
(* Predicates for colour assignments and the split heat map are used by    *)
(* the trace validator (TraceSummaries).                                   *)
(***************************************************************************)
EXTENDS Strings, Rational

CONSTANTS Residues, MaxLen, MaxSeqs, RankVals, MaxRank, PointVals, MaxPoints, Kinds, Mutations

Gap == 99
Missing == -1            \* a missing count (NaN); 0 is an ordinary count and is drawn
VARIABLES kind, seqs, vals, opt, pos, counts, regex, out, step
vars == <<kind, seqs, vals, opt, pos, counts, regex, out, step>>

\* ---- reference semantics
ResiduesAt(ss, p) == { ss[i][p] : i \in 1..Len(ss) } \ {Gap}
CountAt(ss, p, r) == Cardinality({ i \in 1..Len(ss) : ss[i][p] = r })
HasGap(ss, p) == \E i \in 1..Len(ss) : ss[i][p] = Gap
\* language of the independent-site model: one residue observed at the position, or nothing for a gapped position
RECURSIVE Lang(_, _)
Lang(ss, p) == IF p > Len(ss[1]) THEN { <<>> }
               ELSE LET rest == Lang(ss, p + 1)
                    IN { <<r>> \o w : r \in ResiduesAt(ss, p), w \in rest } \cup (IF HasGap(ss, p) THEN rest ELSE {})
MostFrequent(ss, p) == { r \in ResiduesAt(ss, p) : \A q \in ResiduesAt(ss, p) : CountAt(ss, p, r) >= CountAt(ss, p, q) }

\* ---- a regular expression as a sequence of columns <<class, optional>>; its language
RECURSIVE RegexLang(_, _)
RegexLang(re, p) == IF p > Len(re) THEN { <<>> }
                    ELSE LET rest == RegexLang(re, p + 1)
                         IN { <<r>> \o w : r \in re[p][1], w \in rest } \cup (IF re[p][2] THEN rest ELSE {})

Aligned(n, L) == { ss \in [1..n -> [1..L -> Residues \cup {Gap}]] : \A p \in 1..L : \E i \in 1..n : ss[i][p] # Gap }
SumSeq(s) == FoldLeft(LAMBDA acc, v : acc + v, 0, s)

Init == /\ kind \in Kinds
        /\ seqs \in (IF kind = "align" THEN UNION { UNION { Aligned(n, L) : L \in 1..MaxLen } : n \in 1..MaxSeqs } ELSE {<<>>})
        /\ vals \in (CASE kind = "rank" -> UNION { [1..n -> RankVals \cup {Missing}] : n \in 1..MaxRank }
                       [] kind = "scatter" -> UNION { [1..n -> PointVals \X PointVals] : n \in 1..MaxPoints }
                       [] OTHER -> {<<>>})
        /\ opt \in (IF kind = "rank" THEN { [nx |-> a, ny |-> b] : a \in BOOLEAN, b \in BOOLEAN } ELSE {<<>>})
        /\ (kind = "rank" => \E i \in 1..Len(vals) : vals[i] > 0)
        /\ pos = 1 /\ counts = <<>> /\ regex = <<>> /\ out = <<>> /\ step = "start"

\* ---- alignment_to_matrix: one row of residue counts per position (gaps are not counted)
CountColumn == /\ kind = "align" /\ step = "start"
               /\ IF pos > Len(seqs[1]) THEN step' = "regex" /\ pos' = 1 /\ counts' = counts
                  ELSE /\ counts' = Append(counts, [r \in Residues |-> CountAt(seqs, pos, r)])
                       /\ pos' = pos + 1 /\ step' = step
               /\ UNCHANGED <<kind, seqs, vals, opt, regex, out>>
\* seqs_to_regex: for each row, the residues with a positive count; '?' when the counts do not add up to n
RegexColumn == /\ kind = "align" /\ step = "regex"
               /\ IF pos > Len(counts) THEN step' = "done" /\ pos' = pos /\ regex' = regex
                  ELSE /\ regex' = Append(regex, << { r \in Residues : counts[pos][r] > (IF "regex_ge" \in Mutations THEN -1 ELSE 0) },
                                                    SumSeq([i \in 1..Len(SetToSeq(Residues)) |-> counts[pos][SetToSeq(Residues)[i]]]) # Len(seqs) >>)
                       /\ pos' = pos + 1 /\ step' = step
               /\ UNCHANGED <<kind, seqs, vals, opt, counts, out>>

\* ---- rankfrequency
RankData == /\ kind = "rank" /\ step = "start"
            /\ \E present \in { SelectSeq(vals, LAMBDA v : v # (IF "rank_drops_zero" \in Mutations THEN 0 ELSE Missing) /\ v # Missing) } :
                 \E sorted \in { SortSeq(present, LAMBDA a, b : a > b) } :
                    out' = [i \in 1..Len(sorted) |->
                              << IF opt.nx THEN RFrac(sorted[i], SumSeq(present)) ELSE R(sorted[i]),
                                 IF opt.ny THEN RFrac(i - 1, Len(sorted)) ELSE R(i - 1) >>]
            /\ step' = "done"
            /\ UNCHANGED <<kind, seqs, vals, opt, pos, counts, regex>>

\* ---- density_scatter(discrete=True): distinct points with multiplicities
UniquePoints == /\ kind = "scatter" /\ step = "start"
                /\ out' = SetToSeq({ <<p[1], p[2], Cardinality({ i \in 1..Len(vals) : vals[i] = p })>> : p \in ToSet(vals) })
                /\ step' = "done"
                /\ UNCHANGED <<kind, seqs, vals, opt, pos, counts, regex>>

Next == CountColumn \/ RegexColumn \/ RankData \/ UniquePoints
Spec == Init /\ [][Next]_vars
Done == step = "done"

(***************************************************************************)
(* Properties                                                              *)
(***************************************************************************)
\* the expression accepts exactly the strings built from residues observed at each position (gapped positions optional)
RegexIsProductLanguage == (Done /\ kind = "align") => RegexLang(regex, 1) = Lang(seqs, 1)
\* ... in particular every input sequence with its gaps removed
RegexMatchesInputs == (Done /\ kind = "align") =>
    \A i \in 1..Len(seqs) : SelectSeq(seqs[i], LAMBDA c : c # Gap) \in RegexLang(regex, 1)
CountsExact == (Done /\ kind = "align") =>
    \A p \in 1..Len(seqs[1]) : \A r \in Residues : counts[p][r] = CountAt(seqs, p, r)
RankDescending == (Done /\ kind = "rank") =>
    /\ Len(out) = Cardinality({ i \in 1..Len(vals) : vals[i] # Missing })
    /\ \A i \in 1..(Len(out) - 1) : RLe(out[i + 1][1], out[i][1]) /\ RLt(out[i][2], out[i + 1][2])
    /\ (Len(out) > 0 => out[1][2] = <<0, 1>>)
ScatterOnce == (Done /\ kind = "scatter") =>
    /\ SumSeq([i \in 1..Len(out) |-> out[i][3]]) = Len(vals)
    /\ \A i, j \in 1..Len(out) : i # j => <<out[i][1], out[i][2]>> # <<out[j][1], out[j][2]>>

(***************************************************************************)
(* predicates used on recorded data (TraceSummaries)                       *)
(***************************************************************************)
CountOf(labels, x) == Cardinality({ i \in 1..Len(labels) : labels[i] = x })
\* multiplicity of every label, computed once (hundreds of labels: counting inside the quantifiers would be cubic)
CountsOfLabels(labels) == [x \in { labels[i] : i \in 1..Len(labels) } |-> CountOf(labels, x)]
ColoursOKc(labels, minc, cols, distinct, cnt) ==
    /\ Len(cols) = Len(labels)
    /\ \A i, j \in 1..Len(labels) : labels[i] = labels[j] => cols[i] = cols[j]
    /\ \A i \in 1..Len(labels) : (minc > 0 /\ cnt[labels[i]] < minc) => cols[i] = 0          \* 0 = black
    /\ distinct => \A i, j \in 1..Len(labels) :
          (labels[i] # labels[j] /\ (minc = 0 \/ (cnt[labels[i]] >= minc /\ cnt[labels[j]] >= minc))) => cols[i] # cols[j]
ColoursOK(labels, minc, cols, distinct) == \E cnt \in { CountsOfLabels(labels) } : ColoursOKc(labels, minc, cols, distinct, cnt)
\* split heat map: alpha distances below, beta distances above the diagonal, rows / columns in dendrogram order o
SplitHeat(da, db, o) == [i \in 1..Len(o) |-> [j \in 1..Len(o) |->
    IF i > j THEN da[o[i]][o[j]] ELSE IF i < j THEN db[o[i]][o[j]] ELSE da[o[i]][o[i]] + db[o[i]][o[i]]]]
=============================================================================
