SPECIFICATION Spec
CONSTANTS
  MaxTasks = 5
  MaxCpu = 4
  NCalls = 2
  Deviations = {}
VIEW view
INVARIANT ResultIsSerial
INVARIANT AllResultsSerial
INVARIANT NoStaleParams
INVARIANT NoError
INVARIANT ChunksPartition
INVARIANT Progress
PROPERTY SlotsOnce
