----------------------------- MODULE MCCleaning -----------------------------
EXTENDS Cleaning
C(nm) == [name |-> nm, old |-> FALSE]
O(nm) == [name |-> nm, old |-> TRUE]
CS1 == { <<C("TRBV"), C("CDR3B")>>, <<O("TRBV"), C("CDR3B"), C("clone")>>, <<C("Epitope"), C("MHCA"), O("CDR3A")>>, <<C("TRAJ"), C("x")>>,
         <<C("MHCA"), C("TRBV"), C("TRBJ")>>,           \* an MHC column next to beta-chain genes (their precision options differ)
         <<C("CDR3A"), C("TRAJ")>>, <<C("TRBJ"), C("CDR3B")>>,
         <<O("TRBV"), O("TRBJ")>> }     \* a junction next to the J gene of its own chain (cells stay independent)
CS9 == { <<C("TRAV"), C("CDR3A"), C("TRAJ"), C("TRBV"), C("CDR3B"), C("TRBJ"), C("Epitope"), C("MHCA"), C("MHCB")>> }     \* all nine standard columns
CS2 == CS1 \cup { <<C("TRAV"), C("CDR3A"), C("TRAJ"), C("TRBV"), C("CDR3B"), C("TRBJ"), C("Epitope"), C("MHCA"), C("MHCB")>> }
EmitCase == Done => PrintT(ToJson([kind |-> kind, obj |-> obj, tab |-> IF kind = "merge" THEN [i \in 1..Len(tab) |-> SetToSeq({ <<k, tab[i][k]>> : k \in DOMAIN tab[i] })] ELSE tab,
                                   cols |-> cols, opts |-> opts,
                                   out |-> IF kind = "merge" THEN SetToSeq({ <<k, out[k]>> : k \in DOMAIN out }) ELSE out, outcols |-> outcols]))
=============================================================================
