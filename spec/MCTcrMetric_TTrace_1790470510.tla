---- MODULE MCTcrMetric_TTrace_1790470510 ----
EXTENDS MCTcrMetric, Sequences, TLCExt, Toolbox, Naturals, TLC

_expression ==
    LET MCTcrMetric_TEExpression == INSTANCE MCTcrMetric_TEExpression
    IN MCTcrMetric_TEExpression!expression
----

_trace ==
    LET MCTcrMetric_TETrace == INSTANCE MCTcrMetric_TETrace
    IN MCTcrMetric_TETrace!trace
----

_inv ==
    ~(
        TLCGet("level") = Len(_TETrace)
        /\
        acc = (<<<<25>>, <<36>>>>)
        /\
        todo = (<<<<"CDR2", "A">>>>)
        /\
        A = (<<<<2, <<1, 0, 4>>, 1, <<1, 0, 15, 4>>>>, <<2, <<1, 0, 15, 4>>, 1, <<1, 0, 15, 4>>>>>>)
        /\
        B = (<<<<1, <<1, 0, 4>>, 2, <<1, 0, 15, 4>>>>>>)
        /\
        err = (FALSE)
        /\
        wts = ([chain |-> <<1, 1>>, loop |-> <<5, 7, 11>>, edit |-> <<1, 1, 1>>])
        /\
        step = ("columns")
        /\
        inclass = ("table")
        /\
        cls = ("AlphaCdrLevenshtein")
        /\
        cols = (<<<<"CDR3", "A">>, <<"CDR1", "A">>, <<"CDR2", "A">>>>)
    )
----

_init ==
    /\ A = _TETrace[1].A
    /\ B = _TETrace[1].B
    /\ step = _TETrace[1].step
    /\ err = _TETrace[1].err
    /\ cls = _TETrace[1].cls
    /\ acc = _TETrace[1].acc
    /\ todo = _TETrace[1].todo
    /\ cols = _TETrace[1].cols
    /\ inclass = _TETrace[1].inclass
    /\ wts = _TETrace[1].wts
----

_next ==
    /\ \E i,j \in DOMAIN _TETrace:
        /\ \/ /\ j = i + 1
              /\ i = TLCGet("level")
        /\ A  = _TETrace[i].A
        /\ A' = _TETrace[j].A
        /\ B  = _TETrace[i].B
        /\ B' = _TETrace[j].B
        /\ step  = _TETrace[i].step
        /\ step' = _TETrace[j].step
        /\ err  = _TETrace[i].err
        /\ err' = _TETrace[j].err
        /\ cls  = _TETrace[i].cls
        /\ cls' = _TETrace[j].cls
        /\ acc  = _TETrace[i].acc
        /\ acc' = _TETrace[j].acc
        /\ todo  = _TETrace[i].todo
        /\ todo' = _TETrace[j].todo
        /\ cols  = _TETrace[i].cols
        /\ cols' = _TETrace[j].cols
        /\ inclass  = _TETrace[i].inclass
        /\ inclass' = _TETrace[j].inclass
        /\ wts  = _TETrace[i].wts
        /\ wts' = _TETrace[j].wts

\* Uncomment the ASSUME below to write the states of the error trace
\* to the given file in Json format. Note that you can pass any tuple
\* to `JsonSerialize`. For example, a sub-sequence of _TETrace.
    \* ASSUME
    \*     LET J == INSTANCE Json
    \*         IN J!JsonSerialize("MCTcrMetric_TTrace_1790470510.json", _TETrace)

=============================================================================

 Note that you can extract this module `MCTcrMetric_TEExpression`
  to a dedicated file to reuse `expression` (the module in the 
  dedicated `MCTcrMetric_TEExpression.tla` file takes precedence 
  over the module `MCTcrMetric_TEExpression` below).

---- MODULE MCTcrMetric_TEExpression ----
EXTENDS MCTcrMetric, Sequences, TLCExt, Toolbox, Naturals, TLC

expression == 
    [
        \* To hide variables of the `MCTcrMetric` spec from the error trace,
        \* remove the variables below.  The trace will be written in the order
        \* of the fields of this record.
        A |-> A
        ,B |-> B
        ,step |-> step
        ,err |-> err
        ,cls |-> cls
        ,acc |-> acc
        ,todo |-> todo
        ,cols |-> cols
        ,inclass |-> inclass
        ,wts |-> wts
        
        \* Put additional constant-, state-, and action-level expressions here:
        \* ,_stateNumber |-> _TEPosition
        \* ,_AUnchanged |-> A = A'
        
        \* Format the `A` variable as Json value.
        \* ,_AJson |->
        \*     LET J == INSTANCE Json
        \*     IN J!ToJson(A)
        
        \* Lastly, you may build expressions over arbitrary sets of states by
        \* leveraging the _TETrace operator.  For example, this is how to
        \* count the number of times a spec variable changed up to the current
        \* state in the trace.
        \* ,_AModCount |->
        \*     LET F[s \in DOMAIN _TETrace] ==
        \*         IF s = 1 THEN 0
        \*         ELSE IF _TETrace[s].A # _TETrace[s-1].A
        \*             THEN 1 + F[s-1] ELSE F[s-1]
        \*     IN F[_TEPosition - 1]
    ]

=============================================================================



Parsing and semantic processing can take forever if the trace below is long.
 In this case, it is advised to uncomment the module below to deserialize the
 trace from a generated binary file.

\*
\*---- MODULE MCTcrMetric_TETrace ----
\*EXTENDS MCTcrMetric, IOUtils, TLC
\*
\*trace == IODeserialize("MCTcrMetric_TTrace_1790470510.bin", TRUE)
\*
\*=============================================================================
\*

---- MODULE MCTcrMetric_TETrace ----
EXTENDS MCTcrMetric, TLC

trace == 
    <<
    ([acc |-> <<>>,todo |-> <<>>,A |-> <<<<2, <<1, 0, 4>>, 1, <<1, 0, 15, 4>>>>, <<2, <<1, 0, 15, 4>>, 1, <<1, 0, 15, 4>>>>>>,B |-> <<<<1, <<1, 0, 4>>, 2, <<1, 0, 15, 4>>>>>>,err |-> FALSE,wts |-> [chain |-> <<1, 1>>, loop |-> <<5, 7, 11>>, edit |-> <<1, 1, 1>>],step |-> "start",inclass |-> "table",cls |-> "AlphaCdrLevenshtein",cols |-> <<>>]),
    ([acc |-> <<>>,todo |-> <<>>,A |-> <<<<2, <<1, 0, 4>>, 1, <<1, 0, 15, 4>>>>, <<2, <<1, 0, 15, 4>>, 1, <<1, 0, 15, 4>>>>>>,B |-> <<<<1, <<1, 0, 4>>, 2, <<1, 0, 15, 4>>>>>>,err |-> FALSE,wts |-> [chain |-> <<1, 1>>, loop |-> <<5, 7, 11>>, edit |-> <<1, 1, 1>>],step |-> "valid",inclass |-> "table",cls |-> "AlphaCdrLevenshtein",cols |-> <<>>]),
    ([acc |-> <<<<0>>, <<0>>>>,todo |-> <<<<"CDR3", "A">>, <<"CDR1", "A">>, <<"CDR2", "A">>>>,A |-> <<<<2, <<1, 0, 4>>, 1, <<1, 0, 15, 4>>>>, <<2, <<1, 0, 15, 4>>, 1, <<1, 0, 15, 4>>>>>>,B |-> <<<<1, <<1, 0, 4>>, 2, <<1, 0, 15, 4>>>>>>,err |-> FALSE,wts |-> [chain |-> <<1, 1>>, loop |-> <<5, 7, 11>>, edit |-> <<1, 1, 1>>],step |-> "columns",inclass |-> "table",cls |-> "AlphaCdrLevenshtein",cols |-> <<<<"CDR3", "A">>, <<"CDR1", "A">>, <<"CDR2", "A">>>>]),
    ([acc |-> <<<<0>>, <<11>>>>,todo |-> <<<<"CDR1", "A">>, <<"CDR2", "A">>>>,A |-> <<<<2, <<1, 0, 4>>, 1, <<1, 0, 15, 4>>>>, <<2, <<1, 0, 15, 4>>, 1, <<1, 0, 15, 4>>>>>>,B |-> <<<<1, <<1, 0, 4>>, 2, <<1, 0, 15, 4>>>>>>,err |-> FALSE,wts |-> [chain |-> <<1, 1>>, loop |-> <<5, 7, 11>>, edit |-> <<1, 1, 1>>],step |-> "columns",inclass |-> "table",cls |-> "AlphaCdrLevenshtein",cols |-> <<<<"CDR3", "A">>, <<"CDR1", "A">>, <<"CDR2", "A">>>>]),
    ([acc |-> <<<<25>>, <<36>>>>,todo |-> <<<<"CDR2", "A">>>>,A |-> <<<<2, <<1, 0, 4>>, 1, <<1, 0, 15, 4>>>>, <<2, <<1, 0, 15, 4>>, 1, <<1, 0, 15, 4>>>>>>,B |-> <<<<1, <<1, 0, 4>>, 2, <<1, 0, 15, 4>>>>>>,err |-> FALSE,wts |-> [chain |-> <<1, 1>>, loop |-> <<5, 7, 11>>, edit |-> <<1, 1, 1>>],step |-> "columns",inclass |-> "table",cls |-> "AlphaCdrLevenshtein",cols |-> <<<<"CDR3", "A">>, <<"CDR1", "A">>, <<"CDR2", "A">>>>])
    >>
----


=============================================================================

---- CONFIG MCTcrMetric_TTrace_1790470510 ----
CONSTANTS
    VData <- VDataJ
    Cdr3s <- C3two
    MaxRows = 2
    MaxRowsB = 1
    Classes = { "AlphaCdr3Levenshtein" , "BetaCdr3Levenshtein" , "Cdr3Levenshtein" , "AlphaCdrLevenshtein" , "BetaCdrLevenshtein" , "CdrLevenshtein" }
    EditWs <- EW2
    ChainWs <- CW2
    LoopWs <- LW2
    InputClasses = { "table" , "list" , "no_tcr_column" }
    Mutations = { }

INVARIANT
    _inv

CHECK_DEADLOCK
    \* CHECK_DEADLOCK off because of PROPERTY or INVARIANT above.
    FALSE

INIT
    _init

NEXT
    _next

CONSTANT
    _TETrace <- _trace

ALIAS
    _expression
=============================================================================
\* Generated on Sun Sep 27 00:55:30 UTC 2026