------------------------------ MODULE MCKdPool ------------------------------
(* Model-checking wrapper of KdPool: emits every complete behaviour (the calls *)
(* and the schedule TLC chose) as JSON for replay through SpecDrivenPool.      *)
EXTENDS KdPool, Json
EmitSched == (cur = NCalls + 1 /\ pc = "idle") =>
    PrintT(ToJson([calls |-> calls, sched |-> sched, results |-> results]))
=============================================================================
