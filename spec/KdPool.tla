------------------------------- MODULE KdPool -------------------------------
(***************************************************************************)
(* kdtree's _to_triplets (pyrepseq/nn.py): the per-query work is mapped     *)
(* serially or over a multiprocessing.Pool.                                 *)
(*                                                                          *)
(*   SetParams   the module-level parameter block is rewritten for this call *)
(*   Fork        Pool(n_cpu): every worker inherits a COPY of the module     *)
(*               state as it is at this moment; the task list is cut into    *)
(*               chunks of chunksize consecutive tasks                       *)
(*   Take(w)     an idle worker takes the next chunk                         *)
(*   Finish(w)   the worker has computed its chunk WITH ITS OWN COPY of the  *)
(*               parameter block                                             *)
(*   Assemble    Pool.map returns the chunk results in chunk order           *)
(*   SerialMap   n_cpu = 1: no pool                                          *)
(*   Close       the call returns; the next call may start                   *)
(*                                                                          *)
(* The result of task t computed with the block of call c is <<t, c>>: the   *)
(* property (C11) is that the assembled result equals the serial one for    *)
(* every worker count, chunking and interleaving, also across consecutive    *)
(* calls (no stale parameter block).                                        *)
(*                                                                          *)
(* Deviations (negative configurations):                                    *)
(*   "chunk0"            as found at the pinned commit: chunksize =          *)
(*                       int(n / n_cpu), 0 when n_cpu > n (TypeError)        *)
(*   "fork_before_set"   Pool created before the block is rewritten          *)
(*   "unordered"         results assembled in finish order (imap_unordered)  *)
(***************************************************************************)
EXTENDS Naturals, Sequences, FiniteSets, SequencesExt, TLC

CONSTANTS MaxTasks,     \* tasks per call: 1..MaxTasks
          MaxCpu,       \* n_cpu: 1..MaxCpu
          NCalls,       \* consecutive calls
          Deviations

VARIABLES calls, cur, pc, params, wparams, chunks, queue, running, slots, order, result, results, sched

vars == <<calls, cur, pc, params, wparams, chunks, queue, running, slots, order, result, results, sched>>
view == <<calls, cur, pc, params, wparams, chunks, queue, running, slots, order, result, results>>

Max2(a, b) == IF a > b THEN a ELSE b
Min2(a, b) == IF a < b THEN a ELSE b
CeilDiv(a, b) == (a + b - 1) \div b

ChunkSize(n, c) == IF "chunk0" \in Deviations THEN n \div c ELSE Max2(1, n \div c)
ChunksOf(n, cs) == [j \in 1..CeilDiv(n, cs) |-> [t \in 1..(Min2(j * cs, n) - (j - 1) * cs) |-> (j - 1) * cs + t]]

Call == calls[cur]
Serial(n, c) == [t \in 1..n |-> <<t, c>>]

Init == /\ calls \in [1..NCalls -> [n : 1..MaxTasks, ncpu : 1..MaxCpu]]
        /\ cur = 1
        /\ pc = "idle"
        /\ params = 0
        /\ wparams = <<>>
        /\ chunks = <<>>
        /\ queue = <<>>
        /\ running = <<>>
        /\ slots = <<>>
        /\ order = <<>>
        /\ result = <<>>
        /\ results = <<>>
        /\ sched = <<>>

SetParams == /\ cur <= NCalls
             /\ \/ pc = "idle"
                \/ ("fork_before_set" \in Deviations /\ pc = "forked0")
             /\ params' = cur
             /\ pc' = IF pc = "idle" THEN "set" ELSE "forked"
             /\ UNCHANGED <<calls, cur, wparams, chunks, queue, running, slots, order, result, results, sched>>

DoFork(nextpc) ==
    /\ wparams' = [w \in 1..Call.ncpu |-> params]            \* children inherit the block as it is NOW
    /\ running' = [w \in 1..Call.ncpu |-> 0]
    /\ IF ChunkSize(Call.n, Call.ncpu) = 0
       THEN /\ pc' = "error"                                  \* as found: chunksize 0 -> TypeError
            /\ UNCHANGED <<chunks, queue, slots>>
       ELSE /\ chunks' = ChunksOf(Call.n, ChunkSize(Call.n, Call.ncpu))
            /\ queue' = [j \in 1..Len(chunks') |-> j]
            /\ slots' = [j \in 1..Len(chunks') |-> <<>>]
            /\ pc' = nextpc
    /\ order' = <<>>
    /\ sched' = Append(sched, <<"K", cur, Call.ncpu>>)
    /\ UNCHANGED <<calls, cur, params, result, results>>

Fork == /\ cur <= NCalls /\ Call.ncpu > 1
        /\ \/ (pc = "set" /\ DoFork("forked"))
           \/ ("fork_before_set" \in Deviations /\ pc = "idle" /\ DoFork("forked0"))

Take(w) == /\ pc = "forked" /\ running[w] = 0 /\ queue # <<>>
           /\ running' = [running EXCEPT ![w] = Head(queue)]
           /\ queue' = Tail(queue)
           /\ sched' = Append(sched, <<"T", w, Head(queue)>>)
           /\ UNCHANGED <<calls, cur, pc, params, wparams, chunks, slots, order, result, results>>

Finish(w) == /\ pc = "forked" /\ running[w] # 0
             /\ slots' = [slots EXCEPT ![running[w]] = [t \in 1..Len(chunks[running[w]]) |-> <<chunks[running[w]][t], wparams[w]>>]]
             /\ order' = Append(order, running[w])
             /\ running' = [running EXCEPT ![w] = 0]
             /\ sched' = Append(sched, <<"F", w, running[w]>>)
             /\ UNCHANGED <<calls, cur, pc, params, wparams, chunks, queue, result, results>>

Flatten(ss) == FoldLeft(LAMBDA acc, x : acc \o x, <<>>, ss)

Assemble == /\ pc = "forked" /\ queue = <<>> /\ \A w \in DOMAIN running : running[w] = 0
            /\ result' = IF "unordered" \in Deviations
                         THEN Flatten([j \in 1..Len(order) |-> slots[order[j]]])
                         ELSE Flatten(slots)
            /\ pc' = "assembled"
            /\ UNCHANGED <<calls, cur, params, wparams, chunks, queue, running, slots, order, results, sched>>

SerialMap == /\ cur <= NCalls /\ pc = "set" /\ Call.ncpu = 1
             /\ result' = [t \in 1..Call.n |-> <<t, params>>]
             /\ pc' = "assembled"
             /\ sched' = Append(sched, <<"S", cur, 1>>)
             /\ UNCHANGED <<calls, cur, params, wparams, chunks, queue, running, slots, order, results>>

Close == /\ pc = "assembled"
         /\ results' = Append(results, result)
         /\ cur' = cur + 1
         /\ pc' = "idle"
         /\ wparams' = <<>> /\ chunks' = <<>> /\ queue' = <<>> /\ running' = <<>> /\ slots' = <<>> /\ order' = <<>>
         /\ result' = <<>>
         /\ UNCHANGED <<calls, params, sched>>

Next == SetParams \/ Fork \/ (\E w \in 1..MaxCpu : w \in DOMAIN running /\ (Take(w) \/ Finish(w)))
        \/ Assemble \/ SerialMap \/ Close

Spec == Init /\ [][Next]_vars
\* with weak fairness on the whole next-state relation every call is eventually answered (no lost chunk, no worker waiting for ever)
FairSpec == Spec /\ WF_vars(Next)
AllCallsReturn == <>(cur = NCalls + 1)
EveryChunkFinishes == \A j \in 1..MaxTasks : [](((pc = "forked") /\ (j \in DOMAIN slots) /\ (slots[j] = <<>>)) => <>((pc # "forked") \/ ((j \in DOMAIN slots) /\ (slots[j] # <<>>))))

(***************************************************************************)
(* Properties                                                              *)
(***************************************************************************)
\* the assembled result is the serial result of THIS call, whatever the schedule
ResultIsSerial == pc = "assembled" => result = Serial(Call.n, cur)
\* ... for every completed call
AllResultsSerial == \A c \in 1..Len(results) : results[c] = Serial(calls[c].n, c)
\* no worker ever computes with a parameter block of another call
NoStaleParams == pc = "forked" => \A w \in DOMAIN wparams : wparams[w] = cur
\* every n_cpu >= 1 works, including more workers than tasks
NoError == pc # "error"
\* every task is in exactly one chunk; chunks are consecutive runs
ChunksPartition == pc = "forked" =>
    /\ Flatten(chunks) = [t \in 1..Call.n |-> t]
    /\ \A j \in 1..Len(chunks) : Len(chunks[j]) >= 1
\* a chunk result is never overwritten, a chunk is never taken twice
SlotsOnce == [][\A j \in DOMAIN slots : (j \in DOMAIN slots' /\ slots[j] # <<>> /\ pc' = "forked") => slots'[j] = slots[j]]_vars
\* termination is always possible: from a forked state all chunks get done (checked as absence of deadlock before Close)
Progress == (pc = "forked" /\ queue = <<>> /\ \A w \in DOMAIN running : running[w] = 0) => ENABLED Assemble
=============================================================================
