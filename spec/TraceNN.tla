------------------------------- MODULE TraceNN -------------------------------
(***************************************************************************)
(* Trace validation for the search engines (code -> spec).                 *)
(*                                                                         *)
(* The harness records sessions of public calls against the real code:     *)
(*   {sid, inp, events: [ {op, ...logged fields...} ]}                     *)
(* Every session is one behaviour of NNSearch: the logged event selects    *)
(* the spec action (the machine of NNSearch is stepped with its own        *)
(* actions), and the logged fields are compared with the machine's new     *)
(* state.  The verdict is total: every event gets the set of named clauses *)
(* that failed (possibly empty).  All invariants of NNSearch listed in the *)
(* configuration are evaluated by TLC on every state of every session, so  *)
(* the design-level claims are re-checked on inputs far outside the        *)
(* exhaustive bounds.                                                      *)
(*                                                                         *)
(* Sessions are independent: they are the initial states, and TLC's        *)
(* workers process them in parallel.                                       *)
(***************************************************************************)
EXTENDS NNSearch, Json, IOUtils, TLCExt

Sessions == JsonDeserialize(IOEnv.PV_TRACE_FILE)

VARIABLES s,        \* session number
          l,        \* next event of the session
          verdict   \* sequence of [l, op, failed]

tvars == <<s, l, verdict>>

Events == Sessions[s].events
HasEvent(op) == l <= Len(Events) /\ Events[l].op = op
E == Events[l]

Consume(failed) == /\ verdict' = Append(verdict, [l |-> l, op |-> E.op, failed |-> failed])
                   /\ l' = l + 1
                   /\ s' = s

TraceInit == /\ s \in 1..Len(Sessions)
             /\ l = 1
             /\ verdict = <<>>
             /\ inp = Sessions[s].inp
             /\ phase = "start"
             /\ nbuilt = 0
             /\ index = <<>>
             /\ cand = {}
             /\ trip = {}
             /\ ntrip = 0
             /\ dense = <<>>
             /\ nlook = 0

Named(c) == { n \in DOMAIN c : c[n] }     \* names of the clauses that FAILED (c[n] = TRUE means failed)

\* ---- CheckInput: a valid input must not be rejected
TrCheckInput == /\ HasEvent("CheckInput")
                /\ CheckInput
                /\ Consume(Named([rejected_valid_input |-> E.raised]))

\* ---- index building (internal state: drift only)
TrSdBuildSilent == /\ l <= Len(Events) /\ Events[l].op = "Build"
                   /\ SdBuild
                   /\ UNCHANGED tvars
TrBuild == /\ HasEvent("Build")
           /\ \/ SdBuilt
              \/ HbBuild
              \/ KdEncodeBall
           /\ Consume(Named([
                 index_differs |->
                    IF ~E.logged THEN FALSE
                    ELSE IF inp.engine = "kd"
                         THEN index' # E.index
                         ELSE { <<v, index'[v]>> : v \in DOMAIN index' } # ToSet(E.index),
                 \* kd: every pair strictly inside the ball must be a candidate of the real KD-tree query
                 candidate_missing |->
                    IF ~E.logged \/ inp.engine # "kd" THEN FALSE
                    ELSE \E pq \in cand' :
                            /\ SqDist(index'[pq[1]], index'[pq[2]]) < 2 * inp.k * inp.k
                            /\ pq \notin ToSet(E.cand)
               ]))

\* ---- the join / lookup / filter step: API-observable result
PairsOf(ret) == { <<ret[x][1], ret[x][2]>> : x \in 1..Len(ret) }
TrJoin == /\ HasEvent("Join")
          /\ \/ SdSelfJoin
             \/ SdLookup
             \/ HbLookup
             \/ KdFilter
          /\ LET ret == E.ret
                 rp == PairsOf(ret)
                 tp == { <<t[1], t[2]>> : t \in trip' }
             IN Consume(Named([
                  raised |-> E.raised,
                  db_mutated |-> ("db_changed" \in DOMAIN E) /\ E.db_changed,
                  missing_pair |-> ~E.raised /\ \E t \in tp \ rp : ~(inp.two /\ t[1] = t[2]),
                  missing_pair_equal_positions |-> ~E.raised /\ \E t \in tp \ rp : inp.two /\ t[1] = t[2],
                  spurious_pair |-> ~E.raised /\ ~(rp \subseteq tp),
                  wrong_distance |-> ~E.raised /\ \E x \in 1..Len(ret) :
                                        /\ <<ret[x][1], ret[x][2]>> \in tp
                                        /\ <<ret[x][1], ret[x][2], ret[x][3]>> \notin trip',
                  repeated |-> ~E.raised /\ Len(ret) # Cardinality(rp),
                  self_pair |-> ~E.raised /\ ~inp.two /\ \E x \in 1..Len(ret) : ret[x][1] = ret[x][2]
                ]))

\* ---- kdtree with max_returns = m (C11): per query min(m, #true) neighbours, all true with exact
\*      distances, and no omitted neighbour strictly closer than a reported one
TrJoinLimited ==
    /\ HasEvent("JoinLimited")
    /\ KdFilter
    /\ LET ret == E.ret
           m == E.limit
           rset == { <<ret[x][1], ret[x][2], ret[x][3]>> : x \in 1..Len(ret) }
           Of(T, q) == { t \in T : t[1] = q }
       IN Consume(Named([
            raised |-> E.raised,
            repeated |-> ~E.raised /\ Len(ret) # Cardinality(PairsOf(ret)),
            limit_not_true_neighbour |-> ~E.raised /\ ~(rset \subseteq trip'),
            limit_size |-> ~E.raised /\ \E q \in 1..Len(inp.seqs) :
                              Cardinality(Of(rset, q)) # Min2(m, Cardinality(Of(trip', q))),
            limit_not_closest |-> ~E.raised /\ \E q \in 1..Len(inp.seqs) :
                              \E x \in Of(trip', q) \ rset : \E y \in Of(rset, q) : x[3] < y[3]
          ]))

\* ---- output formatting
TrOutput == /\ HasEvent("Output")
            /\ MakeOutput
            /\ LET d == E.dense
                   shapeok == Len(d) = Len(inp.seqs) /\ \A r \in 1..Len(d) : Len(d[r]) = (IF inp.two THEN Len(inp.seqs2) ELSE Len(inp.seqs))
               IN Consume(Named([
                    raised |-> E.raised,
                    shape_wrong |-> ~E.raised /\ ~shapeok,
                    entry_differs |-> ~E.raised /\ shapeok /\ d # dense'
                  ]))

\* ---- output formatting of a limited (max_returns) search: the matrix encodes exactly the triplets THAT call reports -
\*      d at [r, q] for each reported (q, r, d), 0 elsewhere (a limited result need not be symmetric, so the orientation shows)
TrOutputLimited ==
    /\ HasEvent("OutputLimited") /\ UNCHANGED vars
    /\ LET d == E.dense
           n == Len(inp.seqs)
           rset == { <<E.ret[x][1], E.ret[x][2], E.ret[x][3]>> : x \in 1..Len(E.ret) }
           shapeok == Len(d) = n /\ \A r \in 1..Len(d) : Len(d[r]) = n
       IN Consume(Named([
            raised |-> E.raised,
            shape_wrong |-> ~E.raised /\ ~shapeok,
            entry_differs |-> ~E.raised /\ shapeok /\ d # DenseOf(rset, n, n)
          ]))

\* ---- a database object is queried again (C03): the index must be the one built before
TrNewLookup == /\ HasEvent("NewLookup")
               /\ NewLookup(E.seqs2, E.k, E.mode)
               /\ Consume(Named([db_mutated |-> E.db_changed]))

TraceNext == TrCheckInput \/ TrSdBuildSilent \/ TrBuild \/ TrJoin \/ TrJoinLimited \/ TrOutput \/ TrOutputLimited \/ TrNewLookup

TraceSpec == TraceInit /\ [][TraceNext]_<<vars, tvars>>

\* the index of a database object never changes once built
IndexStable == [][(phase \in {"built", "joined", "done"}) => (index' = index)]_<<vars, tvars>>

SessionDone == l > Len(Events)
EmitVerdict == SessionDone =>
    PrintT(ToJson([sid |-> Sessions[s].sid, n |-> Len(Events), verdict |-> verdict]))
\* a session that gets stuck before its last event is reported too (machinery problem, not a verdict)
Stuck == ~SessionDone /\ ~ENABLED TraceNext
EmitStuck == Stuck => PrintT(ToJson([sid |-> Sessions[s].sid, stuck_at |-> l, op |-> Events[l].op]))
=============================================================================
