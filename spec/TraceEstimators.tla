--------------------------- MODULE TraceEstimators ---------------------------
(* Inputs chosen by the harness (sizes beyond the exhaustive bounds) are run      *)
(* through the Evaluate action of Estimators.tla; the exact rational results are  *)
(* printed per session and compared by the harness with the floats the code       *)
(* returned (floats with large denominators cannot be snapped to 32-bit           *)
(* rationals, so the numeric comparison is harness-side with the spec's value as  *)
(* the oracle).  The identities of C06 are evaluated by TLC as invariants on      *)
(* these inputs too.                                                             *)
EXTENDS Estimators, Json, IOUtils, TLCExt
Sessions == JsonDeserialize(IOEnv.PV_TRACE_FILE)
VARIABLES s
TraceInit == /\ s \in 1..Len(Sessions)
             /\ kind = Sessions[s].kind /\ n = Sessions[s].n /\ m = Sessions[s].m
             /\ res = <<>> /\ step = "start"
TraceNext == Evaluate /\ UNCHANGED s
TraceSpec == TraceInit /\ [][TraceNext]_<<vars, s>>
EmitVerdict == Done => PrintT(ToJson([sid |-> Sessions[s].sid, verdict |-> <<>>, res |-> res]))
=============================================================================
