------------------------------ MODULE MCMetrics ------------------------------
EXTENDS Metrics, Json
W12 == {1, 2}
W123 == {1, 2, 3}
W137 == {1, 3, 7}
EmitCase == (Done /\ kind # "layout") => PrintT(ToJson([kind |-> kind, X |-> X, Y |-> Y, w |-> w, D |-> D, vec |-> vec]))
\* closed forms = DP for all small n, m (constant-level check, evaluated once at start-up of the configuration that names it)
ClosedFormsOK ==
    \A n \in 0..5, m \in 0..5 : \A ww \in {<<1, 1, 1>>, <<1, 2, 3>>, <<3, 1, 7>>, <<2, 5, 3>>, <<3, 5, 7>>, <<3, 1, 2>>, <<1, 1, 3>>, <<3, 3, 1>>, <<3, 2, 1>>} :
       /\ WLev(Rep(0, n), Rep(1, m), ww[1], ww[2], ww[3]) = CF_AnBm(n, m, ww)
       /\ WLev(Rep(0, n), Rep(0, m), ww[1], ww[2], ww[3]) = CF_AnAm(n, m, ww)
       /\ WLev(Rep(0, n) \o Rep(1, m), Rep(1, m), ww[1], ww[2], ww[3]) = CF_AnBmToBm(n, m, ww)
ClosedForms == (kind = "layout") => ClosedFormsOK
=============================================================================
