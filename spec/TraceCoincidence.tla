--------------------------- MODULE TraceCoincidence ---------------------------
(* Trace validation of pc / pc_n / pc_joint (C02): the machine of Coincidence.tla *)
(* is stepped silently (Convert, CountUnique, Combine | FromCounts) and the       *)
(* logged return value (a snapped rational) is compared with its result.          *)
EXTENDS Coincidence, Json, IOUtils, TLCExt

Sessions == JsonDeserialize(IOEnv.PV_TRACE_FILE)
VARIABLES s, l, verdict
xvars == <<s, l, verdict>>
Events == Sessions[s].events
E == Events[l]
HasEvent(op) == l <= Len(Events) /\ Events[l].op = op
Consume(failed) == /\ verdict' = Append(verdict, [l |-> l, op |-> E.op, failed |-> failed])
                   /\ l' = l + 1 /\ s' = s
Named(c) == { n \in DOMAIN c : c[n] }

TraceInit == /\ s \in 1..Len(Sessions) /\ l = 1 /\ verdict = <<>>
             /\ kind = Sessions[s].kind /\ a = Sessions[s].a /\ b = Sessions[s].b
             /\ ser = <<>> /\ ser2 = <<>> /\ counts = <<>> /\ res = <<0, 1>> /\ step = "start"

TrSilent == /\ l <= Len(Events) /\ step # "done" /\ Next /\ UNCHANGED xvars

IsRat(r) == Len(r) = 2
TrPc == /\ HasEvent("Pc") /\ step = "done"
        /\ UNCHANGED vars
        /\ Consume(Named([
             raised |-> E.raised,
             not_a_number |-> ~E.raised /\ E.special # "",
             wrong_value |-> ~E.raised /\ E.special = "" /\ RNorm(<<E.ret[1], E.ret[2]>>) # res,      \* both in lowest terms: no cross products (count vectors of hundreds)
             outside_unit_interval |-> ~E.raised /\ E.special = "" /\ ~(RLe(<<0, 1>>, E.ret) /\ RLe(E.ret, <<1, 1>>)) ]))

\* large samples (thousands of elements): the returned fraction times the number of pairs (N(N-1), or N1*N2) is logged as an
\* integer and compared with the number of coinciding pairs the machine's CountUnique step yields (no rational arithmetic, which
\* would overflow TLC's integers at these sizes)
Coinciding == IF b = <<>> THEN SumPairs({ <<v, counts[1][v] * (counts[1][v] - 1)>> : v \in DOMAIN counts[1] })
              ELSE SumPairs({ <<v, counts[1][v] * counts[2][v]>> : v \in (DOMAIN counts[1]) \cap (DOMAIN counts[2]) })
TrPcBig == /\ HasEvent("PcBig") /\ step = "done"
           /\ UNCHANGED vars
           /\ Consume(Named([
                raised |-> E.raised,
                not_a_whole_number_of_pairs |-> ~E.raised /\ ~E.integral,
                wrong_value |-> ~E.raised /\ E.integral /\ E.num # Coinciding ]))

TraceNext == TrSilent \/ TrPc \/ TrPcBig
TraceSpec == TraceInit /\ [][TraceNext]_<<vars, xvars>>
SessionDone == l > Len(Events)
EmitVerdict == SessionDone => PrintT(ToJson([sid |-> Sessions[s].sid, n |-> Len(Events), verdict |-> verdict]))
=============================================================================
