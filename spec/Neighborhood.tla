---------------------------- MODULE Neighborhood ----------------------------
(***************************************************************************)
(* One-edit neighbourhood generators of pyrepseq/distance.py and the set   *)
(* utilities built on them (property C12).                                 *)
(*                                                                         *)
(* Three machines share this module (variable kind selects one):           *)
(*                                                                         *)
(*  "gen"   levenshtein_neighbors(x, alphabet) / hamming_neighbors as loop  *)
(*          machines, one action per loop iteration: the iteration either   *)
(*          yields a string or is skipped by one of the three               *)
(*          duplicate-suppression rules of the code                         *)
(*            GenDel  skip when x[i] = x[i-1]                               *)
(*            GenSub  skip when the letter equals x[i]                      *)
(*            GenIns  skip when the letter equals x[i-1]                    *)
(*  "nnd"   nndist_hamming's cascade 0 -> 1 -> 2 -> 3 -> 4 with the maxdist *)
(*          short-circuits                                                  *)
(*  "util"  next_nearest_neighbors, find_neighbor_pairs(_index),            *)
(*          calculate_neighbor_numbers, isdist1 as the algorithms of the    *)
(*          code, compared with their distance-based definitions            *)
(***************************************************************************)
EXTENDS Strings

CONSTANTS Alpha,        \* the alphabet as a SEQUENCE of letter codes (iteration order of the code)
          MaxLen,       \* strings x up to this length
          RefMaxLen, RefMaxSize,   \* reference sets: subsets of AllStrings up to this length / size
          MaxDistance,  \* next_nearest_neighbors: maxdistance in 1..MaxDistance
          Kinds,        \* subset of {"gen", "hgen", "nnd", "util", "nnn"}
          Mutations     \* seeded model mutants (negative configurations)

VARIABLES kind, x, loop, gi, ga, out, ref, md, ret, vpos

vars == <<kind, x, loop, gi, ga, out, ref, md, ret, vpos>>

A == Len(Alpha)
AlphaSet == { Alpha[j] : j \in 1..A }
Univ(L) == UNION { [1..n -> AlphaSet] : n \in 0..L }
\* all subsets with at most RefMaxSize (<= 4) elements (SUBSET + filter would enumerate 2^|Univ| sets)
SetsOfSize(S, n) == CASE n = 0 -> {{}}
                      [] n = 1 -> { {u} : u \in S }
                      [] n = 2 -> { {u, v} : u \in S, v \in S }
                      [] n = 3 -> { {u, v, w} : u \in S, v \in S, w \in S }
                      [] n = 4 -> { {u, v, w, z} : u \in S, v \in S, w \in S, z \in S }
RefSets == UNION { SetsOfSize(Univ(RefMaxLen), n) : n \in 0..RefMaxSize }

(***************************************************************************)
(* declarative definitions (what the property states)                      *)
(***************************************************************************)
Dist1Lev(y) == { z \in Univ(Len(y) + 1) : Lev(y, z) = 1 }
Dist1Ham(y, Pos) == { z \in [1..Len(y) -> AlphaSet] : Cardinality({i \in 1..Len(y) : y[i] # z[i]}) = 1
                                                       /\ \A i \in 1..Len(y) : y[i] # z[i] => i \in Pos }
WithinLev(y, d) == { z \in Univ(Len(y) + d) : Lev(y, z) <= d } \ {y}
WithinHam(y, d) == { z \in [1..Len(y) -> AlphaSet] : Ham(y, z) <= d } \ {y}

Init == /\ kind \in Kinds
        /\ x \in Univ(MaxLen)
        /\ ref \in (IF kind \in {"nnd", "util"} THEN RefSets ELSE {{}})
        /\ md \in (IF kind = "nnd" THEN 1..4 ELSE IF kind = "nnn" THEN 1..MaxDistance ELSE {0})
        /\ vpos \in (IF kind = "hgen" THEN SUBSET (1..Len(x)) ELSE {1..Len(x)})
        /\ loop = (IF kind = "gen" THEN "del" ELSE IF kind = "hgen" THEN "sub" ELSE "start")
        /\ gi = (IF kind = "gen" THEN 1 ELSE 1)
        /\ ga = 1
        /\ out = <<>>
        /\ ret = -1

(***************************************************************************)
(* generator machines                                                      *)
(***************************************************************************)
\* for i in range(len(x)): if i > 0 and x[i] == x[i-1]: continue; yield x[:i] + x[i+1:]
GenDel == /\ kind = "gen" /\ loop = "del"
          /\ IF gi > Len(x)
             THEN loop' = "sub" /\ gi' = 1 /\ ga' = 1 /\ out' = out
             ELSE /\ out' = IF gi > 1 /\ x[gi] = x[gi - 1] /\ "no_del_skip" \notin Mutations
                            THEN out ELSE Append(out, DelAt(x, gi))
                  /\ gi' = gi + 1 /\ ga' = ga /\ loop' = loop
          /\ UNCHANGED <<kind, x, ref, md, ret, vpos>>

\* for i in range(len(x)): for aa in alphabet: if aa == x[i]: continue; yield x[:i] + aa + x[i+1:]
GenSub == /\ kind \in {"gen", "hgen"} /\ loop = "sub"
          /\ IF gi > Len(x)
             THEN /\ loop' = (IF kind = "gen" THEN "ins" ELSE "done") /\ gi' = 1 /\ ga' = 1 /\ out' = out
             ELSE IF ga > A
                  THEN gi' = gi + 1 /\ ga' = 1 /\ out' = out /\ loop' = loop
                  ELSE /\ out' = IF Alpha[ga] = x[gi] \/ gi \notin vpos THEN out ELSE Append(out, SubAt(x, gi, Alpha[ga]))
                       /\ ga' = ga + 1 /\ gi' = gi /\ loop' = loop
          /\ UNCHANGED <<kind, x, ref, md, ret, vpos>>

\* for i in range(len(x)+1): for aa in alphabet: if i > 0 and aa == x[i-1]: continue; yield x[:i] + aa + x[i:]
\* (gi = i + 1: the new letter becomes the gi-th letter)
GenIns == /\ kind = "gen" /\ loop = "ins"
          /\ IF gi > Len(x) + 1
             THEN loop' = "done" /\ gi' = gi /\ ga' = ga /\ out' = out
             ELSE IF ga > A
                  THEN gi' = gi + 1 /\ ga' = 1 /\ out' = out /\ loop' = loop
                  ELSE /\ out' = IF gi > 1 /\ Alpha[ga] = x[gi - 1] /\ "no_ins_skip" \notin Mutations
                                 THEN out
                                 ELSE IF "ins_skip_next" \in Mutations /\ gi <= Len(x) /\ Alpha[ga] = x[gi]
                                      THEN out          \* mutant: also skips the letter equal to the FOLLOWING one
                                      ELSE Append(out, InsAt(x, gi, Alpha[ga]))
                       /\ ga' = ga + 1 /\ gi' = gi /\ loop' = loop
          /\ UNCHANGED <<kind, x, ref, md, ret, vpos>>

(***************************************************************************)
(* nndist_hamming(seq = x, reference = ref, maxdist = md)                  *)
(***************************************************************************)
HamSphere(y, d) == { z \in [1..Len(y) -> AlphaSet] : Ham(y, z) = d }
IsDistHam(d) == \E r \in ref : HamInf(x, r) = d      \* = (HamSphere(x, d) \cap ref) # {}, without enumerating the sphere

NndStep ==
    /\ kind = "nnd" /\ loop # "done"
    /\ CASE loop = "start" -> IF x \in ref THEN ret' = 0 /\ loop' = "done" ELSE ret' = ret /\ loop' = "c1"
         [] loop = "c1" -> IF md = 1 \/ IsDistHam(1) THEN ret' = 1 /\ loop' = "done" ELSE ret' = ret /\ loop' = "c2"
         [] loop = "c2" -> IF md = 2 \/ IsDistHam(2) THEN ret' = 2 /\ loop' = "done" ELSE ret' = ret /\ loop' = "c3"
         [] loop = "c3" -> IF md = 3 \/ IsDistHam(3) THEN ret' = 3 /\ loop' = "done" ELSE ret' = ret /\ loop' = "c4"
         [] loop = "c4" -> ret' = 4 /\ loop' = "done"
    /\ UNCHANGED <<kind, x, gi, ga, out, ref, md, vpos>>

(***************************************************************************)
(* utilities, written as the code computes them (with the constructive     *)
(* neighbourhoods OneEditC / HamOne)                                       *)
(***************************************************************************)
NbrLev(y) == OneEditC(y, AlphaSet)
NbrHam(y) == HamOne(y, AlphaSet, 1..Len(y))

\* next_nearest_neighbors: iterated neighbourhood union, x discarded
RECURSIVE Layers(_, _, _, _)
Layers(acc, last, d, ham) == IF d = 0 THEN acc
                             ELSE With(UNION { IF ham THEN NbrHam(y) ELSE NbrLev(y) : y \in last },
                                       LAMBDA nxt : Layers(acc \cup nxt, nxt, d - 1, ham))
NextNearest(y, d, ham) == Layers({}, {y}, d, ham) \ {y}

\* find_neighbor_pairs: for x in sorted(set(seqs)): pairs (x, y) for y in nbrs(x) & reference; reference.remove(x)
\* -> every unordered pair {a, b} of distinct members at distance 1 exactly once (as a set of 2-element sets)
NeighborPairs(S, ham) == UNION { { {a, b} : b \in (IF ham THEN NbrHam(a) ELSE NbrLev(a)) \cap S } : a \in S }
\* calculate_neighbor_numbers / isdist1
NeighborNumber(y, S, ham) == Cardinality((IF ham THEN NbrHam(y) ELSE NbrLev(y)) \cap S)
IsDist1(y, S, ham) == \E z \in (IF ham THEN NbrHam(y) ELSE NbrLev(y)) : z \in S

UtilStep == /\ kind \in {"util", "nnn"} /\ loop = "start"
            /\ loop' = "done"
            /\ UNCHANGED <<kind, x, gi, ga, out, ref, md, ret, vpos>>

Next == GenDel \/ GenSub \/ GenIns \/ NndStep \/ UtilStep
Spec == Init /\ [][Next]_vars

(***************************************************************************)
(* Properties                                                              *)
(***************************************************************************)
Done == loop = "done"
\* levenshtein_neighbors: every string at distance exactly 1, each once, nothing else
GenExact == (Done /\ kind = "gen") => ToSet(out) = Dist1Lev(x)
GenOnce == (Done /\ kind \in {"gen", "hgen"}) => Len(out) = Cardinality(ToSet(out))
HGenExact == (Done /\ kind = "hgen") => ToSet(out) = Dist1Ham(x, vpos)
\* the constructive neighbourhood used by the utilities is the declarative one
NbrIsDist1 == (kind = "util") => (NbrLev(x) = Dist1Lev(x) /\ NbrHam(x) = Dist1Ham(x, 1..Len(x)))
\* nndist_hamming = min(true nearest Hamming distance among equal-length references, maxdist)
TrueNnd == With({ Ham(x, r) : r \in { rr \in ref : Len(rr) = Len(x) } },
                LAMBDA ds : IF ds = {} THEN Inf ELSE Min(ds))
NndExact == (Done /\ kind = "nnd") => ret = Min2(TrueNnd, md)
\* utilities agree with true distances
NnnExact == (kind = "nnn") =>
    /\ NextNearest(x, md, FALSE) = WithinLev(x, md)
    /\ NextNearest(x, md, TRUE) = WithinHam(x, md)
UtilExact == (kind = "util") =>
    /\ NeighborPairs(ref, FALSE) = { {a, b} : <<a, b>> \in { ab \in ref \X ref : Lev(ab[1], ab[2]) = 1 } }
    /\ NeighborPairs(ref, TRUE) = { {a, b} : <<a, b>> \in { ab \in ref \X ref : HamInf(ab[1], ab[2]) = 1 } }
    /\ NeighborNumber(x, ref, FALSE) = Cardinality({ r \in ref : Lev(x, r) = 1 })
    /\ NeighborNumber(x, ref, TRUE) = Cardinality({ r \in ref : HamInf(x, r) = 1 })
    /\ IsDist1(x, ref, FALSE) <=> (\E r \in ref : Lev(x, r) = 1)
    /\ IsDist1(x, ref, TRUE) <=> (\E r \in ref : HamInf(x, r) = 1)
=============================================================================
