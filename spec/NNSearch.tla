------------------------------ MODULE NNSearch ------------------------------
(***************************************************************************)
(* The three neighbour-search engines of pyrepseq/nn.py as one state       *)
(* machine, one action per function boundary of the code:                  *)
(*                                                                         *)
(*   symdel      CheckInput, SdBuild(i)*, SdBuilt, SdSelfJoin | SdLookup,  *)
(*               MakeOutput                                                *)
(*   hash_based  CheckInput, HbBuild, HbLookup, MakeOutput                 *)
(*   kdtree      CheckInput, KdEncodeBall, KdFilter, MakeOutput            *)
(*   database    ... MakeOutput, NewLookup(q, k, mode), SdLookup | HbLookup, ...    *)
(*                                                                         *)
(* and the reference semantics Truth(inp) the properties C01, C03, C04,    *)
(* C07, C10 and C14 talk about.  Positions are 1-based here (0-based in    *)
(* the code; the harness shifts).                                          *)
(*                                                                         *)
(* AsFound is a set of named deviations.  Names without prefix model what  *)
(* the implementation did at the pinned commit before the "fix:" commits   *)
(* (see known_findings.json); names starting with "mut_" are seeded model  *)
(* mutants.  With AsFound = {} the machine is the required behaviour; the  *)
(* negative configurations (NEG_*.cfg) set one deviation each and TLC must *)
(* report an invariant violated.                                           *)
(*                                                                         *)
(* Evaluation note: expensive values that are used more than once are      *)
(* bound with With(..) or a quantifier (TLC re-evaluates LET definitions   *)
(* at every reference inside actions).                                     *)
(***************************************************************************)
EXTENDS Strings

CONSTANTS Letters,     \* letter codes strings are built from (subset of 0..19)
          MaxLen,      \* maximal string length
          MaxN,        \* maximal size of the (reference) collection
          MaxN2,       \* maximal size of the query collection (0: self mode only)
          Ks,          \* set of max_edits values
          Engines,     \* subset of {"symdel", "hash", "kd"}
          Modes,       \* subset of {"lev", "hamming", "custom"}
          CdFams,      \* custom-distance families (mode "custom")
          MaxCs,       \* max_custom_distance values, in quarters; Inf = infinity
          Comps,       \* compression values (kdtree)
          MaxLookups,  \* number of further lookups against a built database (C03 histories)
          AsFound      \* modelled deviations

VARIABLES phase, inp, nbuilt, index, cand, trip, ntrip, dense, nlook

vars == <<phase, inp, nbuilt, index, cand, trip, ntrip, dense, nlook>>

NA == 20                                   \* size of the amino-acid alphabet

U == UNION { [1..n -> Letters] : n \in 0..MaxLen }
ListsUpTo(n) == UNION { [1..m -> U] : m \in 1..n }

(***************************************************************************)
(* Custom distance families, values in quarters (the harness implements    *)
(* the same functions with exact binary fractions).  All are symmetric     *)
(* with d(x,x) = 0.                                                        *)
(***************************************************************************)
PrefixMismatch(a, b) == Cardinality({i \in 1..Min2(Len(a), Len(b)) : a[i] # b[i]})
Cd(f, a, b) ==
    CASE f = "lev2"   -> 8 * Lev(a, b)                              \* 2 * Lev
      [] f = "levq"   -> Lev(a, b)                                  \* Lev / 4
      [] f = "lev5"   -> 20 * Lev(a, b)                             \* 5 * Lev
      [] f = "hamlen" -> PrefixMismatch(a, b) + 4 * Abs(Len(a) - Len(b))
      [] f = "len"    -> 4 * Abs(Len(a) - Len(b))
      [] f = "disc"   -> IF a = b THEN 0 ELSE 12

(* the reported value and the membership rule, as the properties state them *)
Dist(i, a, b) == CASE i.mode = "lev" -> Lev(a, b)
                   [] i.mode = "hamming" -> HamInf(a, b)
                   [] i.mode = "custom" -> Cd(i.cd, a, b)
InRange(i, a, b) == CASE i.mode = "lev" -> LevLeq(a, b, i.k)
                      [] i.mode = "hamming" -> HamInf(a, b) <= i.k
                      [] i.mode = "custom" -> LevLeq(a, b, i.k) /\ Cd(i.cd, a, b) <= i.maxc

(* <<InRange, Dist>> of a pair with every underlying distance computed once. The second  *)
(* component is only meaningful when the first is TRUE.                                  *)
Info(i, a, b) ==
    CASE i.mode = "lev" -> With(IF Abs(Len(a) - Len(b)) <= i.k THEN Lev(a, b) ELSE Inf,
                                LAMBDA d : <<d <= i.k, d>>)
      [] i.mode = "hamming" -> With(HamInf(a, b), LAMBDA d : <<d <= i.k, d>>)
      [] i.mode = "custom" -> With(Cd(i.cd, a, b), LAMBDA c : <<c <= i.maxc /\ LevLeq(a, b, i.k), c>>)

(* Reference result.  Self mode: ordered pairs of distinct positions; the distance of    *)
(* each unordered pair is computed once (all distances here are symmetric: lemma LevSym  *)
(* of StringLemmas, Ham and the Cd families by inspection).                              *)
TruthSelf(i) ==
    UNION { { <<g[1], g[2], g[3][2]>>, <<g[2], g[1], g[3][2]>> } :
            g \in { h \in { <<pq[1], pq[2], Info(i, i.seqs[pq[1]], i.seqs[pq[2]])>> :
                              pq \in { xy \in (1..Len(i.seqs)) \X (1..Len(i.seqs)) : xy[1] < xy[2] } }
                      : h[3][1] } }
\* two-collection: <<query position, reference position, d>>
TruthTwo(i) ==
    { <<g[1], g[2], g[3][2]>> :
        g \in { h \in { <<qr[1], qr[2], Info(i, i.seqs2[qr[1]], i.seqs[qr[2]])>> :
                          qr \in (1..Len(i.seqs2)) \X (1..Len(i.seqs)) }
                  : h[3][1] } }
Truth(i) == IF i.two THEN TruthTwo(i) ELSE TruthSelf(i)

(***************************************************************************)
(* Initial states: every input in the bounded universe                     *)
(***************************************************************************)
\* (nested quantifiers with dependent ranges: enumerating a filtered set of records is two orders of magnitude slower in TLC)
Init == /\ \E e \in Engines : \E m \in Modes : \E k \in Ks : \E sq \in ListsUpTo(MaxN) :
           \E s2 \in (IF MaxN2 > 0 /\ e # "kd" THEN ListsUpTo(MaxN2) \cup {<<>>} ELSE {<<>>}) :      \* kdtree has no second collection
           \E f \in (IF m = "custom" THEN CdFams \ {"none"} ELSE {"none"}) :
           \E mc \in (IF m = "custom" THEN MaxCs ELSE {Inf}) :
           \E c \in (IF e = "kd" THEN Comps ELSE {1}) :
              inp = [engine |-> e, mode |-> m, k |-> k, seqs |-> sq, two |-> (s2 # <<>>), seqs2 |-> s2, cd |-> f, maxc |-> mc, comp |-> c]
        /\ phase = "start"
        /\ nbuilt = 0
        /\ index = <<>>
        /\ cand = {}
        /\ trip = {}
        /\ ntrip = 0
        /\ dense = <<>>
        /\ nlook = 0

CheckInput == /\ phase = "start"
              /\ phase' = "checked"
              /\ UNCHANGED <<inp, nbuilt, index, cand, trip, ntrip, dense, nlook>>

(***************************************************************************)
(* symdel                                                                  *)
(***************************************************************************)
\* SymdelDB.__init__, one loop iteration: variant_dict[comb].append(i)
SdBuild == /\ phase = "checked" /\ inp.engine = "symdel"
           /\ nbuilt < Len(inp.seqs)
           /\ \E vs \in { DelVariants(inp.seqs[nbuilt + 1],
                                      IF "mut_sd_kminus1" \in AsFound THEN inp.k - 1 ELSE inp.k) } :
                index' = [v \in (DOMAIN index) \cup vs |->
                              IF v \in vs
                              THEN (IF v \in DOMAIN index THEN Append(index[v], nbuilt + 1) ELSE <<nbuilt + 1>>)
                              ELSE index[v]]
           /\ nbuilt' = nbuilt + 1
           /\ UNCHANGED <<phase, inp, cand, trip, ntrip, dense, nlook>>

SdBuilt == /\ phase = "checked" /\ inp.engine = "symdel" /\ nbuilt = Len(inp.seqs)
           /\ phase' = "built"
           /\ UNCHANGED <<inp, nbuilt, index, cand, trip, ntrip, dense, nlook>>

\* <<kept?, reported value>> for a candidate pair of symdel
SdInfo(i, a, b) ==
    IF i.mode = "custom" /\ "sd_single_threshold" \in AsFound
    THEN With(Cd(i.cd, a, b),                                          \* as found: one threshold
              LAMBDA c : <<c <= (IF i.maxc = Inf THEN 4 * i.k ELSE i.maxc), c>>)
    ELSE Info(i, a, b)

\* self mode: all position pairs of every key's list (combinations(values, 2)),
\* exact distance, threshold, both orientations added to a *set*
SdSelfJoin ==
    /\ phase = "built" /\ inp.engine = "symdel" /\ ~inp.two
    /\ \E pairs \in { UNION { { <<index[v][ab[1]], index[v][ab[2]]>> :
                               ab \in { xy \in (1..Len(index[v])) \X (1..Len(index[v])) : xy[1] < xy[2] } }
                            : v \in DOMAIN index } } :
         /\ cand' = pairs
         /\ trip' = UNION { { <<g[1], g[2], g[3][2]>>, <<g[2], g[1], g[3][2]>> } :
                            g \in { h \in { <<pq[1], pq[2], SdInfo(inp, inp.seqs[pq[1]], inp.seqs[pq[2]])>> : pq \in pairs }
                                      : h[3][1] } }
    /\ ntrip' = Cardinality(trip')                \* a set in the code: no repeats possible
    /\ phase' = "joined"
    /\ UNCHANGED <<inp, nbuilt, index, dense, nlook>>

\* two-collection mode: SymdelDB.lookup
SdLookup ==
    /\ phase = "built" /\ inp.engine = "symdel" /\ inp.two
    /\ \E C \in { UNION { { <<q, j>> : j \in UNION { Range(index[v]) :
                                      v \in DelVariants(inp.seqs2[q], inp.k) \cap DOMAIN index } }
                          : q \in 1..Len(inp.seqs2) } } :
         /\ cand' = C
         /\ trip' = { <<g[1], g[2], g[3][2]>> :
                        g \in { h \in { <<qj[1], qj[2], SdInfo(inp, inp.seqs2[qj[1]], inp.seqs[qj[2]])>> : qj \in C }
                                  : h[3][1] } }
    /\ ntrip' = Cardinality(trip')                \* j_indices is a set per query: one append per (q, j)
    /\ phase' = "joined"
    /\ UNCHANGED <<inp, nbuilt, index, dense, nlook>>

(***************************************************************************)
(* hash_based / LookupDB                                                   *)
(***************************************************************************)
\* LookupDB.__init__: seq_dict sequence -> list of positions
HbBuild ==
    /\ phase = "checked" /\ inp.engine = "hash"
    /\ index' = [s \in Range(inp.seqs) |->
                   SetToSortSeq({p \in 1..Len(inp.seqs) : inp.seqs[p] = s}, <)]
    /\ nbuilt' = Len(inp.seqs)
    /\ phase' = "built"
    /\ UNCHANGED <<inp, cand, trip, ntrip, dense, nlook>>

\* _generate_neighbors: breadth-first ball as a set of <<string, level first seen>>
Nbrs(y, ham) == IF ham THEN HamOne(y, Letters, 1..Len(y)) ELSE OneEditC(y, Letters)
HbBall(x, k, ham) ==
    FoldLeft(LAMBDA B, d :
                With({ b[1] : b \in B }, LAMBDA seen :
                     B \cup { <<y, d>> : y \in (UNION { Nbrs(z, ham) : z \in seen }) \ seen }),
             { <<x, 0>> }, Iota(k))

\* LookupDB.lookup for query number q holding string x (pdist_mode = ~two for hash_based)
HbHits(i, q, x) ==
    UNION { { <<q, y, IF i.mode = "custom" THEN Cd(i.cd, x, b[1]) ELSE b[2]>> :
                y \in { yy \in Range(index[b[1]]) :
                          /\ ~(IF "hb_skip_equal_positions" \in AsFound THEN q = yy      \* as found
                               ELSE (~i.two /\ q = yy))                                 \* pdist_mode only
                          /\ (i.mode = "custom" => Cd(i.cd, x, b[1]) <= i.maxc) } }
            : b \in { bb \in HbBall(x, i.k, i.mode = "hamming") : bb[1] \in DOMAIN index } }

HbLookup ==
    /\ phase = "built" /\ inp.engine = "hash"
    /\ \E H \in { [q \in 1..Len(IF inp.two THEN inp.seqs2 ELSE inp.seqs) |->
                     HbHits(inp, q, (IF inp.two THEN inp.seqs2 ELSE inp.seqs)[q])] } :
         /\ trip' = UNION { H[q] : q \in DOMAIN H }
         /\ ntrip' = FoldLeft(LAMBDA acc, q : acc + Cardinality(H[q]), 0, Iota(Len(H)))
    /\ cand' = {}
    /\ phase' = "joined"
    /\ UNCHANGED <<inp, nbuilt, index, dense, nlook>>

(***************************************************************************)
(* kdtree                                                                  *)
(***************************************************************************)
\* buckets by length (Hamming mode); a bucket is the sequence of ORIGINAL positions
Lengths(s) == { Len(s[p]) : p \in 1..Len(s) }
Bucket(s, n) == SetToSortSeq({p \in 1..Len(s) : Len(s[p]) = n}, <)
Buckets(i) == IF i.mode = "hamming" THEN { Bucket(i.seqs, n) : n \in Lengths(i.seqs) }
              ELSE { Iota(Len(i.seqs)) }

\* KdEncode + KdBall: candidates of position p inside its bucket (composition-vector ball,
\* squared radius 2 k^2, exact integers; the code uses the float radius sqrt(2) * k)
KdEncodeBall ==
    /\ phase = "checked" /\ inp.engine = "kd"
    /\ index' = [p \in 1..Len(inp.seqs) |-> Compo(inp.seqs[p], NA, inp.comp)]
    /\ cand' = UNION { { <<b[xy[1]], b[xy[2]]>> : xy \in { uv \in (1..Len(b)) \X (1..Len(b)) :
                             SqDist(index'[b[uv[1]]], index'[b[uv[2]]]) <= (IF "mut_kd_radius" \in AsFound THEN 2 * inp.k ELSE 2 * inp.k * inp.k) } }
                       : b \in Buckets(inp) }
    /\ nbuilt' = Len(inp.seqs)
    /\ phase' = "built"
    /\ UNCHANGED <<inp, trip, ntrip, dense, nlook>>

\* _to_triplets (serial): exact filter on the candidates, self excluded.
\* as found (kd_bucket_local): per-bucket results carry bucket-local positions
KdLoc(p) == IF "kd_bucket_local" \in AsFound /\ inp.mode = "hamming"
            THEN Cardinality({r \in 1..p : Len(inp.seqs[r]) = Len(inp.seqs[p])})
            ELSE p
KdFilter ==
    /\ phase = "built" /\ inp.engine = "kd"
    /\ \E K \in { { h \in { <<pq[1], pq[2], Info(inp, inp.seqs[pq[1]], inp.seqs[pq[2]])>> :
                             pq \in { xy \in cand : xy[1] # xy[2] } }
                    : h[3][1] } } :
         /\ trip' = { <<KdLoc(g[1]), KdLoc(g[2]), g[3][2]>> : g \in K }
         /\ ntrip' = Cardinality(K)
    /\ phase' = "joined"
    /\ UNCHANGED <<inp, nbuilt, index, cand, dense, nlook>>

(***************************************************************************)
(* _make_output: COO accumulation (duplicates are SUMMED by scipy), row =  *)
(* reference position (triplet[2]), column = query position (triplet[1])   *)
(***************************************************************************)
DenseOf(T, nrows, ncols) ==
    [r \in 1..nrows |-> [c \in 1..ncols |->
        FoldLeft(LAMBDA acc, t : acc + t[3], 0, SetToSeq({t \in T : t[2] = r /\ t[1] = c}))]]

MakeOutput ==
    /\ phase = "joined"
    /\ dense' = DenseOf(trip, Len(inp.seqs), IF inp.two THEN Len(inp.seqs2) ELSE Len(inp.seqs))
    /\ phase' = "done"
    /\ UNCHANGED <<inp, nbuilt, index, cand, trip, ntrip, nlook>>

(***************************************************************************)
(* A database object (SymdelDB / LookupDB) is queried again with another   *)
(* query list: the index is the one built before.                          *)
(***************************************************************************)
\* (LookupDB.lookup takes max_edits per lookup; SymdelDB fixes it when the index is built.  The distance mode is an
\*  argument of EVERY lookup on both objects - custom_distance=None / "hamming" - and the index does not depend on it:
\*  one object serves Levenshtein and Hamming lookups in any order, each answered as by a fresh one-shot search.)
NewLookup(q, k2, m2) ==
                /\ phase = "done" /\ inp.two /\ inp.engine \in {"symdel", "hash"}
                /\ (inp.engine = "symdel" => k2 = inp.k)
                /\ (m2 # inp.mode => (m2 \in {"lev", "hamming"} /\ inp.mode \in {"lev", "hamming"}))
                /\ inp' = [inp EXCEPT !.seqs2 = q, !.k = k2, !.mode = m2]
                /\ phase' = "built"
                /\ cand' = {} /\ trip' = {} /\ ntrip' = 0 /\ dense' = <<>>
                /\ nlook' = nlook + 1
                /\ UNCHANGED <<nbuilt, index>>

Next == \/ CheckInput \/ SdBuild \/ SdBuilt \/ SdSelfJoin \/ SdLookup
        \/ HbBuild \/ HbLookup \/ KdEncodeBall \/ KdFilter \/ MakeOutput
        \/ (nlook < MaxLookups /\ \E q \in ListsUpTo(MaxN2) : \E k2 \in Ks : \E m2 \in Modes : NewLookup(q, k2, m2))

Spec == Init /\ [][Next]_vars

(***************************************************************************)
(* Properties                                                              *)
(***************************************************************************)
Finished == phase \in {"joined", "done"}

\* C01 / C03 / C04 / C07 / C14: exactly the pairs in range, exact distance
Exact == (phase = "joined") => trip = Truth(inp)
\* ... each once
NoRepeat == Finished => ntrip = Cardinality(trip)
\* ... never a position with itself (self mode)
NoSelf == (Finished /\ ~inp.two) => \A t \in trip : t[1] # t[2]
\* both orientations, same value (self mode)
Symmetric == (Finished /\ ~inp.two) => \A t \in trip : <<t[2], t[1], t[3]>> \in trip

\* candidate generation is lossless (the lemmas that make the engines exact)
SymDelLemma == (phase = "built" /\ inp.engine = "symdel" /\ ~inp.two) =>
    \A p, q \in 1..Len(inp.seqs) :
        (p < q /\ LevLeq(inp.seqs[p], inp.seqs[q], inp.k)) =>
            \E v \in DOMAIN index : \E a, b \in 1..Len(index[v]) : index[v][a] = p /\ index[v][b] = q
IndexIsVariants == (phase = "built" /\ inp.engine = "symdel") =>
    /\ DOMAIN index = UNION { DelVariants(inp.seqs[p], inp.k) : p \in 1..Len(inp.seqs) }
    /\ \A v \in DOMAIN index : index[v] = SetToSortSeq({p \in 1..Len(inp.seqs) : v \in DelVariants(inp.seqs[p], inp.k)}, <)
CompositionLemma == (phase = "built" /\ inp.engine = "kd" /\ inp.mode # "hamming") =>
    \A p, q \in 1..Len(inp.seqs) :
        LevLeq(inp.seqs[p], inp.seqs[q], inp.k) => <<p, q>> \in cand
BallExact == (phase = "built" /\ inp.engine = "hash") =>
    \A p \in 1..Len(inp.seqs) :
        \A b \in HbBall(inp.seqs[p], inp.k, inp.mode = "hamming") :
            b[2] = (IF inp.mode = "hamming" THEN Ham(inp.seqs[p], b[1]) ELSE Lev(inp.seqs[p], b[1]))

\* C10: the dense form encodes exactly the triplets
DenseExact == phase = "done" =>
    \A T \in { Truth(inp) } :
       /\ Len(dense) = Len(inp.seqs)
       /\ \A r \in 1..Len(dense) : Len(dense[r]) = (IF inp.two THEN Len(inp.seqs2) ELSE Len(inp.seqs))
       /\ \A t \in T : dense[t[2]][t[1]] = t[3]
       /\ \A r \in 1..Len(dense) : \A c \in 1..Len(dense[r]) :
            dense[r][c] # 0 => \E t \in T : t[1] = c /\ t[2] = r

\* C03: the index of a database object never changes once built
IndexStableA == [][(phase \in {"built", "joined", "done"}) => (index' = index)]_vars

TypeOK == /\ phase \in {"start", "checked", "built", "joined", "done"}
          /\ nbuilt \in 0..MaxN
          /\ ntrip \in Nat

=============================================================================
