------------------------------- MODULE Grouped -------------------------------
(***************************************************************************)
(* Grouped, conditional and entropy statistics as compositions of pc and   *)
(* pcDelta (property C13): pc_conditional, pc_grouped_cross,               *)
(* pcDelta_grouped, pcDelta_grouped_cross, renyi2_entropy,                 *)
(* stdrenyi2_entropy.                                                      *)
(*                                                                         *)
(* A table is a sequence of rows <<key, v, v2>>: key is the grouping key   *)
(* (an integer; two grouping columns k1, k2 are encoded as 10*k1 + k2 so   *)
(* that the lexicographic order of pandas' groupby is the integer order),  *)
(* v and v2 are feature strings.                                           *)
(*                                                                         *)
(* Machine (fn selects the function):                                      *)
(*   FilterSingletons   pc_conditional: groups with one member are dropped *)
(*   GroupApply         the per-group (or per-pair-of-groups) statistic    *)
(*   Assemble           weighting / matrix layout / entropy dispatch       *)
(***************************************************************************)
EXTENDS Strings, Rational

CONSTANTS Letters, MaxLen, MaxRows, Keys, V2s, WeightVals, EdgeSets, Fns, Mutations,
          MinGroups     \* only tables with at least this many distinct group keys (many-group configurations)

VARIABLES fn, tab, opt, kept, parts, res, step
vars == <<fn, tab, opt, kept, parts, res, step>>

NaN == <<0, 0>>
U == UNION { [1..n -> Letters] : n \in 0..MaxLen }
SumSeq(s) == FoldLeft(LAMBDA acc, v : acc + v, 0, s)

\* ---- pc / pcDelta on plain sequences of feature values (reference semantics of C02 / C05)
EqPairs(x) == Cardinality({ ij \in (1..Len(x)) \X (1..Len(x)) : ij[1] # ij[2] /\ x[ij[1]] = x[ij[2]] })
Pc(x) == IF Len(x) < 2 THEN NaN ELSE RFrac(EqPairs(x), Len(x) * (Len(x) - 1))
CrossPairs(x, y) == Cardinality({ ij \in (1..Len(x)) \X (1..Len(y)) : x[ij[1]] = y[ij[2]] })
PcCross(x, y) == RFrac(CrossPairs(x, y), Len(x) * Len(y))
InBin(v, e, b) == e[b] <= v /\ (v < e[b + 1] \/ (b = Len(e) - 1 /\ v = e[b + 1]))
HistSelf(x, e) == [b \in 1..(Len(e) - 1) |->
    Cardinality({ ij \in (1..Len(x)) \X (1..Len(x)) : ij[1] < ij[2] /\ InBin(Lev(x[ij[1]], x[ij[2]]), e, b) })]
HistCross(x, y, e) == [b \in 1..(Len(e) - 1) |->
    Cardinality({ ij \in (1..Len(x)) \X (1..Len(y)) : InBin(Lev(x[ij[1]], y[ij[2]]), e, b) })]
Normalised(h) == IF SumSeq(h) = 0 THEN [b \in 1..Len(h) |-> NaN] ELSE [b \in 1..Len(h) |-> RFrac(h[b], SumSeq(h))]

\* ---- grouping
KeysOf(t) == { t[i][1] : i \in 1..Len(t) }
SortedKeys(t) == SetToSortSeq(KeysOf(t), <)
\* feature values of the rows of group g, in row order; joint = both feature columns
Members(t, g, joint) == LET idx == SetToSortSeq({ i \in 1..Len(t) : t[i][1] = g }, <)
                        IN [j \in 1..Len(idx) |-> IF joint THEN <<t[idx[j]][2], t[idx[j]][3]>> ELSE t[idx[j]][2]]
Column(t, joint) == [i \in 1..Len(t) |-> IF joint THEN <<t[i][2], t[i][3]>> ELSE t[i][2]]

Tables == UNION { [1..n -> Keys \X U \X V2s] : n \in 2..MaxRows }

Init == /\ fn \in Fns
        /\ tab \in Tables
        /\ Cardinality(KeysOf(tab)) >= MinGroups
        /\ opt \in (CASE fn = "pc_conditional" -> { [joint |-> j, w |-> w] : j \in BOOLEAN, w \in {<<>>} \cup [1..Cardinality(Keys) -> WeightVals] }
                      [] fn = "pc_grouped_cross" -> { [joint |-> j, w |-> <<>>] : j \in BOOLEAN }
                      [] fn \in {"pcDelta_grouped", "pcDelta_grouped_cross"} -> { [joint |-> FALSE, w |-> <<>>, edges |-> e, norm |-> nm] : e \in EdgeSets \cup {<<>>}, nm \in BOOLEAN }
                      [] fn = "renyi2" -> { [joint |-> j, w |-> <<>>, by |-> b] : j \in BOOLEAN, b \in BOOLEAN })
        /\ (fn \in {"pcDelta_grouped", "pcDelta_grouped_cross"} /\ opt.edges = <<>>) => opt.norm     \* bins = 0 form
        /\ kept = <<>> /\ parts = <<>> /\ res = <<>> /\ step = "start"

Conditional == fn = "pc_conditional" \/ (fn = "renyi2" /\ opt.by)

\* pc_conditional: groups with a single member cannot carry a coincidence probability
FilterSingletons ==
    /\ step = "start" /\ Conditional
    /\ kept' = SelectSeq(SortedKeys(tab), LAMBDA g : "keep_singletons" \in Mutations \/ Cardinality({ i \in 1..Len(tab) : tab[i][1] = g }) > 1)
    /\ step' = "filtered"
    /\ UNCHANGED <<fn, tab, opt, parts, res>>
NoFilter ==
    /\ step = "start" /\ ~Conditional
    /\ kept' = SortedKeys(tab)
    /\ step' = "filtered"
    /\ UNCHANGED <<fn, tab, opt, parts, res>>

GroupApply ==
    /\ step = "filtered"
    /\ parts' = CASE Conditional -> [i \in 1..Len(kept) |-> Pc(Members(tab, kept[i], opt.joint))]
                  [] fn = "pc_grouped_cross" ->
                        [i \in 1..Len(kept) |-> [j \in 1..Len(kept) |->
                            IF i = j THEN NaN ELSE PcCross(Members(tab, kept[i], opt.joint), Members(tab, kept[j], opt.joint))]]
                  [] fn = "pcDelta_grouped" ->
                        [i \in 1..Len(kept) |->
                            IF opt.edges = <<>> THEN <<Pc(Members(tab, kept[i], FALSE))>>
                            ELSE IF opt.norm THEN Normalised(HistSelf(Members(tab, kept[i], FALSE), opt.edges))
                                 ELSE [b \in 1..(Len(opt.edges) - 1) |-> R(HistSelf(Members(tab, kept[i], FALSE), opt.edges)[b])]]
                  [] fn = "pcDelta_grouped_cross" ->
                        [i \in 1..Len(kept) |-> [j \in 1..Len(kept) |->
                            IF i = j
                            THEN (IF opt.edges = <<>> THEN <<Pc(Members(tab, kept[i], FALSE))>> ELSE <<>>)      \* within-group value (square form, bins = 0)
                            ELSE IF opt.edges = <<>> THEN <<PcCross(Members(tab, kept[i], FALSE), Members(tab, kept[j], FALSE))>>
                                 ELSE IF opt.norm THEN Normalised(HistCross(Members(tab, kept[i], FALSE), Members(tab, kept[j], FALSE), opt.edges))
                                      ELSE [b \in 1..(Len(opt.edges) - 1) |-> R(HistCross(Members(tab, kept[i], FALSE), Members(tab, kept[j], FALSE), opt.edges)[b])]]]
                  [] fn = "renyi2" -> <<Pc(Column(tab, opt.joint))>>
    /\ step' = "applied"
    /\ UNCHANGED <<fn, tab, opt, kept, res>>

\* squared, normalised group weights (uniform by default); weights are aligned with the kept groups in key order
WeightOf(i) == IF opt.w = <<>> THEN 1 ELSE opt.w[i]
Assemble ==
    /\ step = "applied"
    /\ res' = IF Conditional
              THEN (IF Len(kept) = 0 THEN NaN
                    ELSE RWith(SumSeq([i \in 1..Len(kept) |-> IF "weights_not_squared" \in Mutations THEN WeightOf(i) ELSE WeightOf(i) * WeightOf(i)]),
                               LAMBDA tot : RSum([i \in 1..Len(kept) |->
                                    RMul(RFrac(IF "weights_not_squared" \in Mutations THEN WeightOf(i) ELSE WeightOf(i) * WeightOf(i), tot), parts[i])])))
              ELSE IF fn = "renyi2" THEN parts[1] ELSE parts
    /\ step' = "done"
    /\ UNCHANGED <<fn, tab, opt, kept, parts>>

Next == FilterSingletons \/ NoFilter \/ GroupApply \/ Assemble
Spec == Init /\ [][Next]_vars
Done == step = "done"

(***************************************************************************)
(* Properties                                                              *)
(***************************************************************************)
\* pc_conditional = w^2-weighted mean of pc over the groups with at least two members
ConditionalIsWeightedMean == (Done /\ fn = "pc_conditional" /\ res # NaN) =>
    RWith({ g \in KeysOf(tab) : Cardinality({ i \in 1..Len(tab) : tab[i][1] = g }) > 1 }, LAMBDA G :
      RWith(SetToSortSeq(G, <), LAMBDA gs :
        REq(RMul(res, R(SumSeq([i \in 1..Len(gs) |-> WeightOf(i) * WeightOf(i)]))),
            RSum([i \in 1..Len(gs) |-> RMul(R(WeightOf(i) * WeightOf(i)), Pc(Members(tab, gs[i], opt.joint)))]))))
\* a single kept group: the conditional value is that group's pc, whatever the weight
SingleGroup == (Done /\ fn = "pc_conditional" /\ Len(kept) = 1) => res = parts[1]
InUnit == (Done /\ Conditional /\ res # NaN) => (RLe(R(0), res) /\ RLe(res, R(1)))
\* pc_grouped_cross / pcDelta_grouped_cross are symmetric in the two groups; diagonal undefined / within-group
CrossSymmetric == (Done /\ fn \in {"pc_grouped_cross", "pcDelta_grouped_cross"}) =>
    \A i, j \in 1..Len(kept) : res[i][j] = res[j][i]
CrossDiagonal == (Done /\ fn = "pc_grouped_cross") => \A i \in 1..Len(kept) : res[i][i] = NaN
=============================================================================
