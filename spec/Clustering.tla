----------------------------- MODULE Clustering -----------------------------
(***************************************************************************)
(* Clustering (property C15): graph_clustering (pyrepseq/clustering.py)    *)
(* and hierarchical_clustering (pyrepseq/distance.py).                     *)
(*                                                                         *)
(* Two machines (variable kind):                                           *)
(*                                                                         *)
(*  "cc"  connected components by label propagation                       *)
(*          Propagate    every node takes the smallest label among itself   *)
(*                       and its neighbours (one round per step)            *)
(*          DropSingles  clusters with one member are not reported          *)
(*  "sl"  single-linkage agglomeration cut at threshold t                   *)
(*          Merge(a, b)  two clusters at minimal inter-cluster distance     *)
(*                       <= t are merged (NONDETERMINISTIC among ties)      *)
(*          Stop         no pair of clusters within t                       *)
(*                                                                         *)
(* The identity between the two notions - the single-linkage partition at  *)
(* t is the set of connected components of the graph {(i, j): D <= t} - is *)
(* an invariant checked for every small distance matrix.                   *)
(***************************************************************************)
EXTENDS Naturals, Sequences, FiniteSets, SequencesExt, FiniteSetsExt, TLC

CONSTANTS MaxNodes, MaxD, Thresholds, Kinds, Mutations

VARIABLES kind, n, edges, D, t, label, part, reported, step
vars == <<kind, n, edges, D, t, label, part, reported, step>>

Pairs(m) == { p \in (1..m) \X (1..m) : p[1] < p[2] }
Nbrs(E, i) == { j \in 1..n : <<i, j>> \in E \/ <<j, i>> \in E }

\* ---- reference semantics: reachability by paths of edges
RECURSIVE Reach(_, _, _)
Reach(E, S, k) == IF k = 0 THEN S ELSE Reach(E, S \cup UNION { Nbrs(E, i) : i \in S }, k - 1)
Component(E, i) == Reach(E, {i}, n)
Components(E) == { Component(E, i) : i \in 1..n }
ThresholdGraph(dm, th) == { p \in Pairs(n) : dm[p] <= th }

Init == /\ kind \in Kinds
        /\ n \in 1..MaxNodes
        /\ edges \in (IF kind = "cc" THEN SUBSET Pairs(n) ELSE {{}})
        /\ D \in (IF kind = "sl" THEN [Pairs(n) -> 0..MaxD] ELSE {<<>>})
        /\ t \in (IF kind = "sl" THEN Thresholds ELSE {0})
        /\ label = [i \in 1..n |-> i]
        /\ part = { {i} : i \in 1..n }
        /\ reported = {}
        /\ step = "run"

\* ---- connected components by label propagation
Propagate == /\ kind = "cc" /\ step = "run"
             /\ \E new \in { [i \in 1..n |-> Min({label[i]} \cup { label[j] : j \in Nbrs(edges, i) })] } :
                   IF new = label
                   THEN step' = "stable" /\ label' = label
                   ELSE step' = "run" /\ label' = new
             /\ UNCHANGED <<kind, n, edges, D, t, part, reported>>

\* graph_clustering returns only the nodes whose cluster has more than one member
DropSingles == /\ kind = "cc" /\ step = "stable"
               /\ reported' = { i \in 1..n : Cardinality({ j \in 1..n : label[j] = label[i] }) >
                                             (IF "gt2" \in Mutations THEN 2 ELSE 1) }
               /\ step' = "done"
               /\ UNCHANGED <<kind, n, edges, D, t, label, part>>

\* ---- single linkage
ClusterDist(a, b) == Min({ D[IF x < y THEN <<x, y>> ELSE <<y, x>>] : x \in a, y \in b })
Merge == /\ kind = "sl" /\ step = "run"
         /\ \E a, b \in part :
               /\ a # b
               /\ ClusterDist(a, b) <= t
               /\ \A c, d \in part : c # d => ClusterDist(a, b) <= ClusterDist(c, d)       \* closest pair first
               /\ part' = (part \ {a, b}) \cup {a \cup b}
         /\ UNCHANGED <<kind, n, edges, D, t, label, reported, step>>
Stop == /\ kind = "sl" /\ step = "run"
        /\ \A a, b \in part : a # b => ClusterDist(a, b) > t
        /\ step' = "done"
        /\ UNCHANGED <<kind, n, edges, D, t, label, part, reported>>

Next == Propagate \/ DropSingles \/ Merge \/ Stop
Spec == Init /\ [][Next]_vars
Done == step = "done"

(***************************************************************************)
(* Properties                                                              *)
(***************************************************************************)
\* same cluster exactly when a path of edges connects the nodes
LabelsAreComponents == (kind = "cc" /\ step \in {"stable", "done"}) =>
    \A i, j \in 1..n : (label[i] = label[j]) <=> (j \in Component(edges, i))
\* only nodes of clusters with more than one member are reported, and all of those
ReportedNonSingletons == (kind = "cc" /\ Done) =>
    reported = { i \in 1..n : Cardinality(Component(edges, i)) > 1 }
\* the single-linkage partition at t = the connected components of the threshold graph, whatever the tie-breaking
SingleLinkageIsComponents == (kind = "sl" /\ Done) => part = { Reach(ThresholdGraph(D, t), {i}, n) : i \in 1..n }
\* merging never splits a cluster
MergeMonotone == [][kind = "sl" => \A a \in part : \E b \in part' : a \subseteq b]_vars
PartitionOK == (kind = "sl") => (UNION part = 1..n /\ \A a, b \in part : a = b \/ a \cap b = {})
=============================================================================
