----------------------------- MODULE MCHelpers -----------------------------
EXTENDS Helpers, Json
EmitCase == Done => PrintT(ToJson([kind |-> kind, inp |-> inp, out |-> out]))
=============================================================================
