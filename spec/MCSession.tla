------------------------------ MODULE MCSession ------------------------------
EXTENDS Session, Json, SequencesExt
\* module state after each call of the history (prediction compared with the projection of the real interpreter: drift level)
Trail == FoldLeft(LAMBDA acc, i :
            LET m == IF i = 1 THEN Fresh ELSE acc[i - 1]
                c == hist[i][1]
                m1 == IF c = "random" THEN [m EXCEPT !.rng = <<"seeded", hist[i][2]>>] ELSE m
            IN Append(acc, After(c, m1, i)), <<>>, [i \in 1..Len(hist) |-> i])
EmitHist == (Len(hist) = MaxHist) => PrintT(ToJson([hist |-> hist, trail |-> Trail, results |-> results]))
=============================================================================
