-------------------------- MODULE TraceNeighborhood --------------------------
(* Trace validation of the neighbourhood generators and utilities (C12).        *)
(* Session = {sid, kind, x, ref, md, vpos, events}.  For generator sessions the *)
(* loop machine of Neighborhood.tla is stepped silently to completion and the   *)
(* logged yields are compared with its output; for utility sessions the logged  *)
(* return value is compared with the distance-based definition.                 *)
EXTENDS Neighborhood, Json, IOUtils, TLCExt

Alpha20 == [j \in 1..20 |-> j - 1]
Sessions == JsonDeserialize(IOEnv.PV_TRACE_FILE)
VARIABLES s, l, verdict
xvars == <<s, l, verdict>>
Events == Sessions[s].events
E == Events[l]
HasEvent(op) == l <= Len(Events) /\ Events[l].op = op
Consume(failed) == /\ verdict' = Append(verdict, [l |-> l, op |-> E.op, failed |-> failed])
                   /\ l' = l + 1 /\ s' = s
Named(c) == { n \in DOMAIN c : c[n] }

TraceInit == /\ s \in 1..Len(Sessions) /\ l = 1 /\ verdict = <<>>
             /\ kind = Sessions[s].kind
             /\ x = Sessions[s].x
             /\ ref = ToSet(Sessions[s].ref)
             /\ md = Sessions[s].md
             /\ vpos = ToSet(Sessions[s].vpos)
             /\ loop = (IF kind = "gen" THEN "del" ELSE IF kind = "hgen" THEN "sub" ELSE "start")
             /\ gi = 1 /\ ga = 1 /\ out = <<>> /\ ret = -1

TrSilent == /\ l <= Len(Events) /\ loop # "done"
            /\ (GenDel \/ GenSub \/ GenIns \/ NndStep \/ UtilStep)
            /\ UNCHANGED xvars

Bag(seq) == [y \in ToSet(seq) |-> Cardinality({i \in 1..Len(seq) : seq[i] = y})]

TrGen == /\ HasEvent("Gen") /\ loop = "done"
         /\ UNCHANGED vars
         /\ Consume(Named([
              raised |-> E.raised,
              missing_neighbour |-> ~E.raised /\ ~(ToSet(out) \subseteq ToSet(E.yields)),
              spurious_neighbour |-> ~E.raised /\ ~(ToSet(E.yields) \subseteq ToSet(out)),
              duplicate_yield |-> ~E.raised /\ Len(E.yields) # Cardinality(ToSet(E.yields)),
              order_differs |-> ~E.raised /\ E.yields # out ]))

TrNnd == /\ HasEvent("Nnd") /\ loop = "done"
         /\ UNCHANGED vars
         /\ Consume(Named([ raised |-> E.raised, wrong_distance |-> ~E.raised /\ E.ret # ret ]))

PairSet(ps) == { {ps[i][1], ps[i][2]} : i \in 1..Len(ps) }
TrUtil == /\ HasEvent("Util") /\ loop = "done"
          /\ UNCHANGED vars
          /\ Consume(Named([
               raised |-> E.raised,
               pairs_differ |-> ~E.raised /\ E.fn = "find_neighbor_pairs" /\
                                   (PairSet(E.ret) # { {a, b} : <<a, b>> \in { ab \in ref \X ref :
                                        (IF E.ham THEN HamInf(ab[1], ab[2]) ELSE Lev(ab[1], ab[2])) = 1 } }
                                    \/ Len(E.ret) # Cardinality(PairSet(E.ret))),
               number_differs |-> ~E.raised /\ E.fn = "calculate_neighbor_numbers" /\
                                   E.ret # Cardinality({ r \in ref : (IF E.ham THEN HamInf(x, r) ELSE Lev(x, r)) = 1 }),
               isdist1_differs |-> ~E.raised /\ E.fn = "isdist1" /\
                                   (E.ret <=> ~(\E r \in ref : (IF E.ham THEN HamInf(x, r) ELSE Lev(x, r)) = 1)) ]))

TraceNext == TrSilent \/ TrGen \/ TrNnd \/ TrUtil
TraceSpec == TraceInit /\ [][TraceNext]_<<vars, xvars>>
SessionDone == l > Len(Events)
EmitVerdict == SessionDone => PrintT(ToJson([sid |-> Sessions[s].sid, n |-> Len(Events), verdict |-> verdict]))
\* design-level invariants re-evaluated on recorded sessions (constructive = declarative is only
\* model-checked on small universes; here the generator output is compared with the constructive sets)
GenIsConstructive == (Done /\ kind = "gen") => ToSet(out) = OneEditC(x, AlphaSet) /\ Len(out) = Cardinality(ToSet(out))
HGenIsConstructive == (Done /\ kind = "hgen") => ToSet(out) = HamOne(x, AlphaSet, vpos) /\ Len(out) = Cardinality(ToSet(out))
=============================================================================
