--------------------------- MODULE MCNeighborhood ---------------------------
(* emits every finished behaviour of Neighborhood as JSON (spec -> code replay) *)
EXTENDS Neighborhood, Json
Alpha1 == <<0>>
Alpha2 == <<0, 1>>
Alpha2b == <<1, 0>>
Alpha3 == <<0, 1, 2>>
Alpha4 == <<3, 0, 2, 1>>
EmitCase == Done =>
    PrintT(ToJson(
      CASE kind \in {"gen", "hgen"} -> [kind |-> kind, x |-> x, alpha |-> Alpha, vpos |-> SetToSortSeq(vpos, <), out |-> out]
        [] kind = "nnd" -> [kind |-> kind, x |-> x, alpha |-> Alpha, ref |-> SetToSeq(ref), md |-> md, ret |-> ret]
        [] kind = "nnn" -> [kind |-> kind, x |-> x, alpha |-> Alpha, md |-> md,
                            lev |-> SetToSeq(NextNearest(x, md, FALSE)), ham |-> SetToSeq(NextNearest(x, md, TRUE))]
        [] kind = "util" -> [kind |-> kind, x |-> x, alpha |-> Alpha, ref |-> SetToSeq(ref),
                             pairs_lev |-> SetToSeq({ SetToSeq(p) : p \in NeighborPairs(ref, FALSE) }),
                             pairs_ham |-> SetToSeq({ SetToSeq(p) : p \in NeighborPairs(ref, TRUE) }),
                             num_lev |-> NeighborNumber(x, ref, FALSE), num_ham |-> NeighborNumber(x, ref, TRUE),
                             isd1_lev |-> IsDist1(x, ref, FALSE), isd1_ham |-> IsDist1(x, ref, TRUE)]))
=============================================================================
