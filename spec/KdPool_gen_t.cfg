SPECIFICATION Spec
CONSTANTS
  MaxTasks = 5
  MaxCpu = 4
  NCalls = 1
  Deviations = {}
INVARIANT ResultIsSerial
INVARIANT NoStaleParams
INVARIANT NoError
INVARIANT EmitSched
