------------------------------- MODULE Metrics -------------------------------
(***************************************************************************)
(* String metrics and SciPy layout (property C08):                         *)
(*   pyrepseq.metric.Levenshtein / WeightedLevenshtein                     *)
(*   pyrepseq.pdist / cdist (functional helpers)                           *)
(*                                                                         *)
(* Machine (one action per method of the code):                            *)
(*   Cdist       D[i][j] = WLev(A[i] -> B[j]; ins, del, sub)               *)
(*   SelfCdist   D = Cdist(X, X)               (calc_pdist_vector, step 1) *)
(*   Squareform  v = upper triangle of D, row-major (step 2: SciPy's       *)
(*               squareform with checks=False reads M[i][j], i < j)        *)
(*   LoopPdist   the explicit double loop of the functional pdist          *)
(*                                                                         *)
(* CondIndex is the documented position m*i + j - (i+2)(i+1)/2 (0-based).  *)
(***************************************************************************)
EXTENDS Strings

CONSTANTS Letters, MaxLen, MaxM, MaxMB, Weights, Kinds, Mutations

VARIABLES kind, X, Y, w, D, vec, step
vars == <<kind, X, Y, w, D, vec, step>>

U == UNION { [1..n -> Letters] : n \in 0..MaxLen }
Lists(n) == UNION { [1..k -> U] : k \in 1..n }

Dist(a, b, ww) == IF "swap_ins_del" \in Mutations THEN WLev(a, b, ww[2], ww[1], ww[3]) ELSE WLev(a, b, ww[1], ww[2], ww[3])

\* 0-based condensed index of the pair i < j among m observations
CondIndex(m, i, j) == m * i + j - ((i + 2) * (i + 1)) \div 2

Init == /\ kind \in Kinds
        /\ X \in (IF kind = "layout" THEN { [i \in 1..m |-> <<>>] : m \in 2..MaxM } ELSE Lists(MaxM))
        /\ Y \in (IF kind = "cdist" THEN Lists(MaxMB) ELSE {<<>>})
        /\ w \in (IF kind = "layout" THEN {<<1, 1, 1>>} ELSE Weights \X Weights \X Weights)
        /\ D = <<>> /\ vec = <<>> /\ step = "start"

Cdist == /\ step = "start" /\ kind = "cdist"
         /\ D' = [i \in 1..Len(X) |-> [j \in 1..Len(Y) |-> Dist(X[i], Y[j], w)]]
         /\ step' = "done"
         /\ UNCHANGED <<kind, X, Y, w, vec>>

SelfCdist == /\ step = "start" /\ kind = "pdist"
             /\ D' = [i \in 1..Len(X) |-> [j \in 1..Len(X) |-> Dist(X[i], X[j], w)]]
             /\ step' = "matrix"
             /\ UNCHANGED <<kind, X, Y, w, vec>>

\* upper triangle, row-major: rows i = 1..m-1, columns j = i+1..m  (mutant: lower triangle = transposed matrix)
Squareform == /\ step = "matrix"
              /\ vec' = FoldLeft(LAMBDA acc, i :
                                    acc \o [t \in 1..(Len(X) - i) |->
                                              IF "transposed" \in Mutations THEN D[i + t][i] ELSE D[i][i + t]],
                                 <<>>, [i \in 1..(Len(X) - 1) |-> i])
              /\ step' = "done"
              /\ UNCHANGED <<kind, X, Y, w, D>>

\* the functional helper: for i in range(m-1): for j in range(i+1, m): dm[k] = metric(...); k += 1
LoopPdist == /\ step = "start" /\ kind = "loop"
             /\ vec' = FoldLeft(LAMBDA acc, i : acc \o [t \in 1..(Len(X) - i) |-> Dist(X[i], X[i + t], w)],
                                <<>>, [i \in 1..(Len(X) - 1) |-> i])
             /\ D' = <<>>
             /\ step' = "done"
             /\ UNCHANGED <<kind, X, Y, w>>

LayoutOnly == /\ step = "start" /\ kind = "layout" /\ step' = "done" /\ UNCHANGED <<kind, X, Y, w, D, vec>>

Next == Cdist \/ SelfCdist \/ Squareform \/ LoopPdist \/ LayoutOnly
Spec == Init /\ [][Next]_vars
Done == step = "done"

(***************************************************************************)
(* Properties                                                              *)
(***************************************************************************)
\* CondIndex enumerates {(i, j) : i < j} row-major onto 0 .. m(m-1)/2 - 1
CondBijection == (kind = "layout") =>
    \A m \in {Len(X)} :
       /\ { CondIndex(m, ij[1], ij[2]) : ij \in { p \in (0..(m-1)) \X (0..(m-1)) : p[1] < p[2] } } = 0..((m * (m - 1)) \div 2 - 1)
       /\ \A p, q \in { r \in (0..(m-1)) \X (0..(m-1)) : r[1] < r[2] } :
            (p[1] < q[1] \/ (p[1] = q[1] /\ p[2] < q[2])) => CondIndex(m, p[1], p[2]) < CondIndex(m, q[1], q[2])
\* the condensed vector holds the distance FROM X[i] TO X[j] (i < j) at CondIndex
PdistLayout == (Done /\ kind \in {"pdist", "loop"}) =>
    /\ Len(vec) = (Len(X) * (Len(X) - 1)) \div 2
    /\ \A i, j \in 1..Len(X) : i < j => vec[CondIndex(Len(X), i - 1, j - 1) + 1] = WLev(X[i], X[j], w[1], w[2], w[3])
CdistExact == (Done /\ kind = "cdist") =>
    \A i \in 1..Len(X), j \in 1..Len(Y) : D[i][j] = WLev(X[i], Y[j], w[1], w[2], w[3])
\* metric facts about the reference distance itself
WLevFacts == (kind = "cdist" /\ step = "start") =>
    \A i \in 1..Len(X), j \in 1..Len(Y) :
       /\ WLev(X[i], X[i], w[1], w[2], w[3]) = 0
       /\ WLev(X[i], Y[j], w[1], w[2], w[3]) = WLev(Y[j], X[i], w[2], w[1], w[3])        \* reversal swaps ins/del
       /\ (w = <<1, 1, 1>> => WLev(X[i], Y[j], 1, 1, 1) = Lev(X[i], Y[j]))
       /\ (X[i] # Y[j] => WLev(X[i], Y[j], w[1], w[2], w[3]) > 0)
       /\ \A k \in 1..Len(X) : WLev(X[i], Y[j], w[1], w[2], w[3]) <= WLev(X[i], X[k], w[1], w[2], w[3]) + WLev(X[k], Y[j], w[1], w[2], w[3])
LevSym == (kind = "cdist" /\ step = "start") => \A i \in 1..Len(X), j \in 1..Len(Y) : Lev(X[i], Y[j]) = Lev(Y[j], X[i])

(***************************************************************************)
(* Closed forms for long strings (validated here against the DP for small  *)
(* n, m; used by the trace validator for lengths up to 400 where the DP    *)
(* would be too slow).  a, b are distinct letters.                         *)
(***************************************************************************)
Rep(a, n) == [i \in 1..n |-> a]
SubOrIndel(ww) == Min2(ww[3], ww[1] + ww[2])
\* a^n -> b^m
CF_AnBm(n, m, ww) == Min2(n, m) * SubOrIndel(ww) + (IF n > m THEN (n - m) * ww[2] ELSE (m - n) * ww[1])
\* a^n -> a^m
CF_AnAm(n, m, ww) == IF n > m THEN (n - m) * ww[2] ELSE (m - n) * ww[1]
\* a^n b^m -> b^m
CF_AnBmToBm(n, m, ww) == n * ww[2]
=============================================================================
