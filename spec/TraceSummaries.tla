---------------------------- MODULE TraceSummaries ----------------------------
(* Trace validation for C19 on recorded artist data.                                  *)
(*   Colors {labels, minc, cols, hls}        labels_to_colors_hls / _tableau: labels and  *)
(*                                           colours interned by the harness (0 = black)   *)
(*   Heat   {seqsA, seqsB, order, data2d, vec} similarity_clustermap: distances recomputed  *)
(*                                           by TLC; heat map = alpha below / beta above     *)
(*                                           the diagonal in dendrogram order; vec is the     *)
(*                                           condensed summed-distance vector the harness      *)
(*                                           feeds to SciPy for the linkage comparison         *)
(*   Rank   {vals, opt, scalex, scaley, xs, ys} rankfrequency on larger random count vectors   *)
EXTENDS Summaries, Json, IOUtils, TLCExt
Sessions == JsonDeserialize(IOEnv.PV_TRACE_FILE)
VARIABLES s, l, verdict
xvars == <<s, l, verdict>>
Events == Sessions[s].events
E == Events[l]
HasEvent(op) == l <= Len(Events) /\ Events[l].op = op
Consume(failed) == /\ verdict' = Append(verdict, [l |-> l, op |-> E.op, failed |-> failed])
                   /\ l' = l + 1 /\ s' = s
Named(c) == { nm \in DOMAIN c : c[nm] }
TraceInit == /\ s \in 1..Len(Sessions) /\ l = 1 /\ verdict = <<>>
             /\ kind = "trace" /\ seqs = <<>> /\ vals = <<>> /\ opt = <<>> /\ pos = 1 /\ counts = <<>> /\ regex = <<>> /\ out = <<>> /\ step = "done"

TrColors == /\ HasEvent("Colors") /\ UNCHANGED vars
            /\ \E cnt \in { CountsOfLabels(E.labels) } :
               Consume(Named([
                 raised |-> E.raised,
                 length_differs |-> ~E.raised /\ Len(E.cols) # Len(E.labels),
                 equal_labels_different_colours |-> ~E.raised /\ Len(E.cols) = Len(E.labels) /\
                      \E i, j \in 1..Len(E.labels) : E.labels[i] = E.labels[j] /\ E.cols[i] # E.cols[j],
                 rare_label_not_black |-> ~E.raised /\ Len(E.cols) = Len(E.labels) /\
                      \E i \in 1..Len(E.labels) : E.minc > 0 /\ cnt[E.labels[i]] < E.minc /\ E.cols[i] # 0,
                 distinct_labels_same_colour |-> ~E.raised /\ Len(E.cols) = Len(E.labels) /\ E.hls /\ ~ColoursOKc(E.labels, E.minc, E.cols, TRUE, cnt)
                      /\ ColoursOKc(E.labels, E.minc, E.cols, FALSE, cnt) ]))

LevMat(x) == [i \in 1..Len(x) |-> [j \in 1..Len(x) |-> IF i = j THEN 0 ELSE Lev(x[i], x[j])]]
CondVec(da, db) == FoldLeft(LAMBDA v, i : v \o [k \in 1..(Len(da) - i) |-> da[i][i + k] + db[i][i + k]], <<>>, [i \in 1..(Len(da) - 1) |-> i])
TrHeat == /\ HasEvent("Heat") /\ UNCHANGED vars
          /\ \E m \in { <<LevMat(E.seqsA), LevMat(E.seqsB)>> } :
               \E ma \in { IF E.single THEN [i \in 1..Len(m[1]) |-> [j \in 1..Len(m[1]) |-> m[1][i][j]]] ELSE m[1] } :
               \E mb \in { IF E.single THEN ma ELSE m[2] } :
               Consume(Named([
                 raised |-> E.raised,
                 harness_vector_differs_from_spec |-> E.vec # (IF E.single THEN CondVec(ma, [i \in 1..Len(ma) |-> [j \in 1..Len(ma) |-> 0]]) ELSE CondVec(ma, mb)),
                 order_not_a_permutation |-> ~E.raised /\ ToSet(E.order) # 1..Len(E.seqsA),
                 heatmap_not_alpha_below_beta_above |-> ~E.raised /\ ToSet(E.order) = 1..Len(E.seqsA) /\ E.data2d # SplitHeat(ma, mb, E.order) ]))

TrRank == /\ HasEvent("Rank") /\ UNCHANGED vars
          /\ \E present \in { SelectSeq(E.vals, LAMBDA v : v # Missing) } :
             \E sorted \in { SortSeq(present, LAMBDA a, b : a > b) } :
               Consume(Named([
                 raised |-> E.raised,
                 length_wrong |-> ~E.raised /\ (Len(E.xs) # Len(sorted) \/ Len(E.ys) # Len(sorted)),
                 x_not_descending_values |-> ~E.raised /\ Len(E.xs) = Len(sorted) /\
                      \E i \in 1..Len(sorted) : ~REq(E.xs[i], IF E.nx THEN RFrac(sorted[i] * E.scalex, SumSeq(present)) ELSE R(sorted[i] * E.scalex)),
                 y_not_rank |-> ~E.raised /\ Len(E.ys) = Len(sorted) /\
                      \E i \in 1..Len(sorted) : ~REq(E.ys[i], IF E.ny THEN RFrac((i - 1) * E.scaley, Len(sorted)) ELSE R((i - 1) * E.scaley)) ]))

TraceNext == TrColors \/ TrHeat \/ TrRank
TraceSpec == TraceInit /\ [][TraceNext]_<<vars, xvars>>
SessionDone == l > Len(Events)
EmitVerdict == SessionDone => PrintT(ToJson([sid |-> Sessions[s].sid, n |-> Len(Events), verdict |-> verdict]))
=============================================================================
