------------------------------- MODULE TraceTcr -------------------------------
(* Trace validation of nearest_neighbor_tcrdist and of the bundled V tables   *)
(* against TcrNN.tla.  Events:                                                 *)
(*   Table {m}                      one bundled V-distance table               *)
(*   Call  {raised, ret}            the call described by the session's inp;   *)
(*                                  the machine of TcrNN is stepped through    *)
(*                                  its four actions before the comparison     *)
EXTENDS TcrNN, Json, IOUtils, TLCExt

Sessions == JsonDeserialize(IOEnv.PV_TRACE_FILE)
VARIABLES s, l, verdict
xvars == <<s, l, verdict>>
Events == Sessions[s].events
E == Events[l]
HasEvent(op) == l <= Len(Events) /\ Events[l].op = op
Consume(failed) == /\ verdict' = Append(verdict, [l |-> l, op |-> E.op, failed |-> failed])
                   /\ l' = l + 1 /\ s' = s
Named(c) == { n \in DOMAIN c : c[n] }

TraceInit == /\ s \in 1..Len(Sessions) /\ l = 1 /\ verdict = <<>>
             /\ inp = Sessions[s].inp
             /\ phase = "start" /\ cand = {} /\ vsum = <<>> /\ csum = <<>> /\ out = {}

TrTable == /\ HasEvent("Table")
           /\ UNCHANGED tvars
           /\ Consume(Named([
                not_square_or_nonzero_diagonal |-> ~(\A i \in 1..Len(E.m) : Len(E.m[i]) = Len(E.m) /\ E.m[i][i] = 0),
                not_symmetric |-> ~(\A i, j \in 1..Len(E.m) : E.m[i][j] = E.m[j][i]),
                labels_differ |-> E.index # E.columns ]))

\* silent machine steps before the call's result is compared
TrSilent == /\ HasEvent("Call") /\ phase # "cdone"
            /\ (EditCandidates \/ LookupV \/ Cdr3Dist)
            /\ UNCHANGED xvars

PairsOf(ret) == { <<ret[x][1], ret[x][2]>> : x \in 1..Len(ret) }
TrCall == /\ HasEvent("Call")
          /\ SumFilter
          /\ LET ret == E.ret
                 rp == PairsOf(ret)
                 tp == { <<t[1], t[2]>> : t \in out' }
             IN Consume(Named([
                  raised |-> E.raised,
                  missing_pair |-> ~E.raised /\ ~(tp \subseteq rp),
                  spurious_pair |-> ~E.raised /\ ~(rp \subseteq tp),
                  wrong_value |-> ~E.raised /\ \E x \in 1..Len(ret) :
                                     <<ret[x][1], ret[x][2]>> \in tp /\ <<ret[x][1], ret[x][2], ret[x][3]>> \notin out',
                  repeated |-> ~E.raised /\ Len(ret) # Cardinality(rp) ]))

TraceNext == TrTable \/ TrSilent \/ TrCall
TraceSpec == TraceInit /\ [][TraceNext]_<<tvars, xvars>>
SessionDone == l > Len(Events)
EmitVerdict == SessionDone => PrintT(ToJson([sid |-> Sessions[s].sid, n |-> Len(Events), verdict |-> verdict]))
=============================================================================
