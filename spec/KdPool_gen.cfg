SPECIFICATION Spec
CONSTANTS
  MaxTasks = 4
  MaxCpu = 3
  NCalls = 1
  Deviations = {}
INVARIANT ResultIsSerial
INVARIANT NoStaleParams
INVARIANT NoError
INVARIANT EmitSched
