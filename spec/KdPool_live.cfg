SPECIFICATION FairSpec
CONSTANTS
  MaxTasks = 4
  MaxCpu = 3
  NCalls = 2
  Deviations = {}
VIEW view
PROPERTY AllCallsReturn
PROPERTY EveryChunkFinishes
