------------------------------ MODULE Resample ------------------------------
(***************************************************************************)
(* Resampling and power-law utilities (property C17).                      *)
(*                                                                         *)
(* subsample(counts, n) as a machine drawing individual items without      *)
(* replacement:                                                            *)
(*   Refuse     n larger than the total: an error                          *)
(*   Draw(i)    one of the remaining items of category i is taken          *)
(*   Recount    after n draws: sorted unique category indices with their   *)
(*              (positive) drawn counts                                    *)
(* Every individual item is equally likely to be kept: an outcome k has    *)
(* probability  prod_i C(c_i, k_i) / C(total, n)  (Weight below; the       *)
(* harness judges observed frequencies against it, section 6 of DESIGN).   *)
(*                                                                         *)
(* downsample(seqs, maxseqs): identity when the input is small enough or   *)
(* maxseqs is None, otherwise a NONDETERMINISTIC choice of exactly maxseqs *)
(* positions.                                                              *)
(***************************************************************************)
EXTENDS Naturals, Sequences, FiniteSets, SequencesExt, FiniteSetsExt, TLC

CONSTANTS MaxCats, MaxCount, MaxItems, Kinds, Mutations

VARIABLES kind, counts, want, remaining, drawn, ndrawn, out, err, step
vars == <<kind, counts, want, remaining, drawn, ndrawn, out, err, step>>

SumSeq(s) == FoldLeft(LAMBDA acc, v : acc + v, 0, s)
Fact(k) == FoldLeft(LAMBDA acc, v : acc * v, 1, [i \in 1..k |-> i])
Choose(a, b) == IF b > a THEN 0 ELSE Fact(a) \div (Fact(b) * Fact(a - b))

Init == /\ kind \in Kinds
        /\ counts \in (IF kind = "subsample" THEN UNION { [1..k -> 0..MaxCount] : k \in 1..MaxCats }
                       ELSE { [i \in 1..m |-> 1] : m \in 0..MaxItems })            \* downsample: m items
        /\ want \in 0..(IF kind = "subsample" THEN MaxCats * MaxCount + 1 ELSE MaxItems + 1)
        /\ remaining = counts
        /\ drawn = [i \in 1..Len(counts) |-> 0]
        /\ ndrawn = 0 /\ out = <<>> /\ err = FALSE /\ step = "start"

\* ---- subsample
Refuse == /\ kind = "subsample" /\ step = "start" /\ want > SumSeq(counts)
          /\ err' = TRUE /\ step' = "done"
          /\ UNCHANGED <<kind, counts, want, remaining, drawn, ndrawn, out>>
Begin == /\ kind = "subsample" /\ step = "start" /\ want <= SumSeq(counts)
         /\ step' = "drawing"
         /\ UNCHANGED <<kind, counts, want, remaining, drawn, ndrawn, out, err>>
Draw(i) == /\ kind = "subsample" /\ step = "drawing" /\ ndrawn < want
           /\ (IF "with_replacement" \in Mutations THEN counts[i] > 0 ELSE remaining[i] > 0)
           /\ remaining' = IF "with_replacement" \in Mutations THEN remaining ELSE [remaining EXCEPT ![i] = remaining[i] - 1]
           /\ drawn' = [drawn EXCEPT ![i] = drawn[i] + 1]
           /\ ndrawn' = ndrawn + 1
           /\ UNCHANGED <<kind, counts, want, out, err, step>>
Recount == /\ kind = "subsample" /\ step = "drawing" /\ ndrawn = want
           /\ out' = [j \in 1..Cardinality({ i \in 1..Len(counts) : drawn[i] > 0 }) |->
                        <<SetToSortSeq({ i \in 1..Len(counts) : drawn[i] > 0 }, <)[j],
                          drawn[SetToSortSeq({ i \in 1..Len(counts) : drawn[i] > 0 }, <)[j]]>>]
           /\ step' = "done"
           /\ UNCHANGED <<kind, counts, want, remaining, drawn, ndrawn, err>>

\* ---- downsample (want = maxseqs; want = MaxItems + 1 stands for None / a large maxseqs)
Keep == /\ kind = "downsample" /\ step = "start"
        /\ IF Len(counts) <= want
           THEN out' = [i \in 1..Len(counts) |-> i]                               \* unchanged
           ELSE \E p \in { q \in [1..want -> 1..Len(counts)] : \A a, b \in 1..want : a # b => q[a] # q[b] } : out' = p
        /\ step' = "done"
        /\ UNCHANGED <<kind, counts, want, remaining, drawn, ndrawn, err>>

Next == Refuse \/ Begin \/ (\E i \in 1..Len(counts) : Draw(i)) \/ Recount \/ Keep
Spec == Init /\ [][Next]_vars
Done == step = "done"

(***************************************************************************)
(* Properties                                                              *)
(***************************************************************************)
\* post-conditions of subsample (= the reachable final states of the drawing machine)
ValidOutcome(c, n, o) ==
    /\ \A j \in 1..Len(o) : o[j][1] \in 1..Len(c) /\ o[j][2] > 0 /\ o[j][2] <= c[o[j][1]]
    /\ \A j \in 1..(Len(o) - 1) : o[j][1] < o[j + 1][1]
    /\ SumSeq([j \in 1..Len(o) |-> o[j][2]]) = n
SubsampleOK == (Done /\ kind = "subsample") => (IF want > SumSeq(counts) THEN err ELSE (~err /\ ValidOutcome(counts, want, out)))
NeverOverdraw == (kind = "subsample") => \A i \in 1..Len(counts) : drawn[i] <= counts[i] /\ remaining[i] + drawn[i] = counts[i]
\* number of equally likely item selections that lead to an outcome (exact distribution)
Weight(c, o) == FoldLeft(LAMBDA acc, j : acc * Choose(c[o[j][1]], o[j][2]), 1, [j \in 1..Len(o) |-> j])
\* downsample: identity when small, else exactly maxseqs distinct positions
ValidKept(m, ms, o) == IF m <= ms THEN o = [i \in 1..m |-> i]
                       ELSE Len(o) = ms /\ \A a \in 1..Len(o) : o[a] \in 1..m /\ \A b \in 1..Len(o) : a # b => o[a] # o[b]
DownsampleOK == (Done /\ kind = "downsample") => ValidKept(Len(counts), want, out)
=============================================================================
