------------------------------- MODULE PcDelta -------------------------------
(***************************************************************************)
(* pcDelta (pyrepseq/distance.py) - property C05 - and the statistics      *)
(* composed from pc and pcDelta - property C13 (module Grouped).           *)
(*                                                                         *)
(* Machine, one action per stage of the code:                              *)
(*   ShortCircuit  bins = 0: the result is pc(seqs, seqs2)                 *)
(*   Downsample    at most maxseqs elements are kept: a NONDETERMINISTIC   *)
(*                 choice of a sub-collection (positions), identity when   *)
(*                 the collection is small enough or maxseqs is unlimited  *)
(*   ChooseMetric  default metric from the input kind / columns present    *)
(*   Distances     one distance per unordered pair (self) or per (i, j)    *)
(*                 (two collections)                                       *)
(*   Histogram     NumPy convention: edges[b] <= x < edges[b+1], last bin  *)
(*                 closed, values outside the edges dropped                *)
(*   Normalise     counts / total, or (count + c) / (total + 2c)           *)
(*                                                                         *)
(* An element is a string or a TCR row <<CDR3A, CDR3B>>.                   *)
(***************************************************************************)
EXTENDS Strings, Rational

CONSTANTS Letters, MaxLen, MaxN, MaxN2, EdgeMax, MaxEdges,
          Pseudos,      \* pseudocounts as rationals <<p, q>>
          ElemKinds,    \* subset of {"str", "A", "B", "AB"}
          MetricKinds,  \* subset of {"default", "wlev", "lendiff"}
          MaxSeqs,      \* set of maxseqs values; 0 = None
          Mutations

VARIABLES inp, sub, sub2, metric, dists, hist, res, step
vars == <<inp, sub, sub2, metric, dists, hist, res, step>>

NaN == <<0, 0>>
U == UNION { [1..n -> Letters] : n \in 0..MaxLen }
Elem(k) == IF k = "str" THEN U ELSE U \X U
Colls(k, n) == UNION { [1..m -> Elem(k)] : m \in 2..n }
Colls2(k, n) == UNION { [1..m -> Elem(k)] : m \in 1..n }
\* strictly increasing edge vectors within 0..EdgeMax, 2..MaxEdges entries
EdgeVecs == { e \in UNION { [1..k -> 0..EdgeMax] : k \in 2..MaxEdges } : \A i \in 1..(Len(e) - 1) : e[i] < e[i + 1] }

\* ---- distance between two elements under a metric
ElemDist(mk, ek, x, y) ==
    CASE mk = "lev" -> Lev(x, y)
      [] mk = "wlev" -> WLev(x, y, 2, 1, 3)                  \* WeightedLevenshtein(2, 1, 3)
      [] mk = "lendiff" -> Abs(Len(x) - Len(y))             \* a user-defined Metric subclass
      [] mk = "cdr3A" -> Lev(x[1], y[1])
      [] mk = "cdr3B" -> Lev(x[2], y[2])
      [] mk = "cdr3AB" -> Lev(x[1], y[1]) + Lev(x[2], y[2])
\* get_default_metric_for_input_data: chosen from the input type / the columns present
DefaultMetric(ek) == CASE ek = "str" -> "lev" [] ek = "A" -> "cdr3A" [] ek = "B" -> "cdr3B" [] ek = "AB" -> "cdr3AB"
DefaultMetricMut(ek) == IF "swap_default_AB" \in Mutations /\ ek \in {"A", "B"}
                        THEN (IF ek = "A" THEN "cdr3B" ELSE "cdr3A") ELSE DefaultMetric(ek)

\* Levenshtein distance between homopolymers a^n and b^m given as <<letter, length>> (closed form, checked against the DP
\* for all small n, m by MCPcDelta!HomoClosedFormOK): used by the trace validator for strings of hundreds of letters
HomoDist(x, y) == IF x[1] = y[1] THEN Abs(x[2] - y[2]) ELSE Max2(x[2], y[2])

\* ---- reference semantics
PairDists(mk, ek, x) == [ij \in { p \in (1..Len(x)) \X (1..Len(x)) : p[1] < p[2] } |-> ElemDist(mk, ek, x[ij[1]], x[ij[2]])]
CrossDists(mk, ek, x, y) == [ij \in (1..Len(x)) \X (1..Len(y)) |-> ElemDist(mk, ek, x[ij[1]], y[ij[2]])]
InBin(v, e, b) == e[b] <= v /\ (v < e[b + 1] \/ (b = Len(e) - 1 /\ v = e[b + 1]))
HistOf(d, e) == [b \in 1..(Len(e) - 1) |-> Cardinality({ k \in DOMAIN d : InBin(d[k], e, b) })]
SumSeq(s) == FoldLeft(LAMBDA acc, v : acc + v, 0, s)
Normalised(h, c) ==
    IF c[1] = 0
    THEN (IF SumSeq(h) = 0 THEN [b \in 1..Len(h) |-> NaN] ELSE [b \in 1..Len(h) |-> RFrac(h[b], SumSeq(h))])
    ELSE [b \in 1..Len(h) |-> RFrac(h[b] * c[2] + c[1], SumSeq(h) * c[2] + 2 * c[1])]

\* sub-collections: strictly increasing position vectors of the required size
SubPositions(n, k) == { p \in [1..k -> 1..n] : \A i \in 1..(k - 1) : p[i] < p[i + 1] }
Pick(x, p) == [i \in 1..Len(p) |-> x[p[i]]]
Kept(x, ms) == IF ms = 0 \/ Len(x) <= ms THEN { x } ELSE { Pick(x, p) : p \in SubPositions(Len(x), ms) }

\* equal elements (for the bins = 0 short-circuit and the distance-0 invariant); a TCR table with only the
\* alpha (beta) columns holds only that component of the row
Key(ek, x) == CASE ek = "A" -> x[1] [] ek = "B" -> x[2] [] OTHER -> x
EqPairsK(ek, x) == Cardinality({ ij \in (1..Len(x)) \X (1..Len(x)) : ij[1] # ij[2] /\ Key(ek, x[ij[1]]) = Key(ek, x[ij[2]]) })
CrossPairsK(ek, x, y) == Cardinality({ ij \in (1..Len(x)) \X (1..Len(y)) : Key(ek, x[ij[1]]) = Key(ek, y[ij[2]]) })

\* inputs, built with dependent ranges (no filtered cross product)
Rec(ek, sq, s2, mk, e, nm, c, ms) ==
    [ek |-> ek, seqs |-> sq, two |-> (s2 # <<>>), seqs2 |-> s2, mk |-> mk, edges |-> e, norm |-> nm, c |-> c, ms |-> ms]
\* (a pseudocount given together with normalize = FALSE has no effect: the result is the number of pairs per bin)
NormPseudo == { <<FALSE, <<0, 1>> >> } \cup { <<TRUE, c>> : c \in Pseudos } \cup { <<FALSE, c>> : c \in Pseudos }
Seconds(ek) == IF MaxN2 > 0 THEN Colls2(ek, MaxN2) \cup {<<>>} ELSE {<<>>}

Init == /\ \E ek \in ElemKinds : \E sq \in Colls(ek, MaxN) : \E s2 \in Seconds(ek) :
              \/ \E mk \in (IF ek = "str" THEN MetricKinds ELSE MetricKinds \cap {"default"}) :
                    \E e \in EdgeVecs : \E np \in NormPseudo : \E ms \in MaxSeqs :
                       inp = Rec(ek, sq, s2, mk, e, np[1], np[2], ms)
              \* bins = 0 (whatever maxseqs says: the short-circuit comes before any down-sampling, the arguments themselves are counted)
              \/ ("default" \in MetricKinds /\ \E ms \in MaxSeqs : inp = Rec(ek, sq, s2, "default", <<>>, TRUE, <<0, 1>>, ms))
        /\ sub = <<>> /\ sub2 = <<>> /\ metric = "" /\ dists = <<>> /\ hist = <<>> /\ res = <<>> /\ step = "start"

\* bins = 0: exact coincidence probability of the same arguments
ShortCircuit == /\ step = "start" /\ inp.edges = <<>>
                /\ res' = <<IF inp.two THEN RFrac(CrossPairsK(inp.ek, inp.seqs, inp.seqs2), Len(inp.seqs) * Len(inp.seqs2))
                                       ELSE RFrac(EqPairsK(inp.ek, inp.seqs), Len(inp.seqs) * (Len(inp.seqs) - 1))>>
                /\ step' = "done"
                /\ UNCHANGED <<inp, sub, sub2, metric, dists, hist>>

Downsample == /\ step = "start" /\ inp.edges # <<>>
              /\ sub' \in Kept(inp.seqs, inp.ms)
              /\ sub2' \in (IF inp.two THEN Kept(inp.seqs2, inp.ms) ELSE {<<>>})
              /\ step' = "sampled"
              /\ UNCHANGED <<inp, metric, dists, hist, res>>

ChooseMetric == /\ step = "sampled"
                /\ metric' = IF inp.mk = "default" THEN DefaultMetricMut(inp.ek) ELSE inp.mk
                /\ step' = "metric"
                /\ UNCHANGED <<inp, sub, sub2, dists, hist, res>>

Distances == /\ step = "metric"
             /\ dists' = IF inp.two THEN CrossDists(metric, inp.ek, sub, sub2)
                         ELSE IF "full_square" \in Mutations
                              THEN CrossDists(metric, inp.ek, sub, sub)           \* mutant: histogram of the whole square matrix
                              ELSE PairDists(metric, inp.ek, sub)
             /\ step' = "dists"
             /\ UNCHANGED <<inp, sub, sub2, metric, hist, res>>

Histogram == /\ step = "dists"
             /\ hist' = HistOf(dists, inp.edges)
             /\ step' = "hist"
             /\ UNCHANGED <<inp, sub, sub2, metric, dists, res>>

Normalise == /\ step = "hist"
             /\ res' = IF inp.norm THEN Normalised(hist, inp.c) ELSE [b \in 1..Len(hist) |-> R(hist[b])]
             /\ step' = "done"
             /\ UNCHANGED <<inp, sub, sub2, metric, dists, hist>>

Next == ShortCircuit \/ Downsample \/ ChooseMetric \/ Distances \/ Histogram \/ Normalise
Spec == Init /\ [][Next]_vars
Done == step = "done"

(***************************************************************************)
(* Properties                                                              *)
(***************************************************************************)
\* number of pairs whose distance falls in the bin, over the (sub-sampled) collections
CountsExact == (step \in {"hist", "done"} /\ inp.edges # <<>>) =>
    \A b \in 1..Len(hist) :
       hist[b] = IF inp.two
                 THEN Cardinality({ ij \in (1..Len(sub)) \X (1..Len(sub2)) : InBin(ElemDist(metric, inp.ek, sub[ij[1]], sub2[ij[2]]), inp.edges, b) })
                 ELSE Cardinality({ ij \in (1..Len(sub)) \X (1..Len(sub)) : ij[1] < ij[2] /\ InBin(ElemDist(metric, inp.ek, sub[ij[1]], sub[ij[2]]), inp.edges, b) })
\* the count at distance 0 is sum n_i (n_i - 1) / 2 when the first bin is [0, 1) (and distance 0 <=> equal, true for lev/cdr3)
ZeroBin == (step \in {"hist", "done"} /\ Len(inp.edges) > 2 /\ ~inp.two /\ inp.edges[1] = 0 /\ inp.edges[2] = 1 /\ metric \in {"lev", "cdr3A", "cdr3B", "cdr3AB", "wlev"}) =>
    2 * hist[1] = EqPairsK(inp.ek, sub)
\* with maxseqs the result is that of a sub-sample of exactly min(N, maxseqs) elements
SampleSize == (step # "start" /\ inp.edges # <<>>) =>
    /\ Len(sub) = (IF inp.ms = 0 \/ Len(inp.seqs) <= inp.ms THEN Len(inp.seqs) ELSE inp.ms)
    /\ (inp.ms = 0 \/ Len(inp.seqs) <= inp.ms) => sub = inp.seqs
NormalisedSumsToOne == (Done /\ inp.edges # <<>> /\ inp.norm /\ inp.c[1] = 0 /\ SumSeq(hist) > 0) =>
    RSum(res) = <<1, 1>>
DefaultMetricTable == (step \in {"metric", "dists", "hist", "done"} /\ inp.edges # <<>> /\ inp.mk = "default") => metric = DefaultMetric(inp.ek)
=============================================================================
