-------------------------------- MODULE TcrNN --------------------------------
(***************************************************************************)
(* nearest_neighbor_tcrdist (pyrepseq/nn.py) as a four-step machine        *)
(*                                                                         *)
(*   EditCandidates  candidate pairs = ordered pairs of distinct rows whose *)
(*                   (trimmed) CDR3 of the candidate chain are within      *)
(*                   max_edits (delegated to nearest_neighbor: NNSearch)   *)
(*   LookupV         V-gene table distance of each candidate pair, summed  *)
(*                   over the requested chains                             *)
(*   Cdr3Dist        CDR3 TCRdist of each candidate pair, summed likewise  *)
(*   SumFilter       total = V + CDR3, kept iff total <= max_tcrdist       *)
(*                                                                         *)
(* The V tables and the CDR3 metric are DATA here (vd[c][i][j], c3[c][i][j]*)
(* for chain c): in traces the harness reads them from the bundled CSV     *)
(* files and from the pwseqdist stand-in independently of pyrepseq, so the *)
(* specification decides the composition, which is what C14 states.       *)
(***************************************************************************)
EXTENDS Strings

CONSTANTS Letters, MaxLen, MaxN, Ks, Vals, MaxTs, Chains

VARIABLES phase, inp, cand, vsum, csum, out

tvars == <<phase, inp, cand, vsum, csum, out>>

U == UNION { [1..n -> Letters] : n \in 0..MaxLen }
Lists == UNION { [1..m -> U] : m \in 1..MaxN }

\* symmetric matrices with zero diagonal over Vals
SymMats(n) == { m \in [1..n -> [1..n -> Vals \cup {0}]] :
                  \A i, j \in 1..n : m[i][j] = m[j][i] /\ (i = j => m[i][j] = 0) }

Total(i, p, q) == FoldLeft(LAMBDA acc, c : acc + i.vd[c][p][q] + i.c3[c][p][q], 0, Iota(i.nchains))

Expected(i) ==
    { <<pq[1], pq[2], Total(i, pq[1], pq[2])>> :
        pq \in { xy \in (1..Len(i.T)) \X (1..Len(i.T)) :
                   /\ xy[1] # xy[2]
                   /\ LevLeq(i.T[xy[1]], i.T[xy[2]], i.k)
                   /\ Total(i, xy[1], xy[2]) <= i.maxt } }

Init == /\ inp \in { [T |-> t, k |-> k, nchains |-> nc, vd |-> vd, c3 |-> c3, maxt |-> mt] :
                       t \in Lists, k \in Ks, nc \in Chains, mt \in MaxTs,
                       vd \in UNION { [1..c -> SymMats(MaxN)] : c \in Chains },
                       c3 \in UNION { [1..c -> SymMats(MaxN)] : c \in Chains } }
        /\ Len(inp.vd) = inp.nchains /\ Len(inp.c3) = inp.nchains
        /\ phase = "start" /\ cand = {} /\ vsum = <<>> /\ csum = <<>> /\ out = {}

EditCandidates ==
    /\ phase = "start"
    /\ cand' = { xy \in (1..Len(inp.T)) \X (1..Len(inp.T)) : xy[1] # xy[2] /\ LevLeq(inp.T[xy[1]], inp.T[xy[2]], inp.k) }
    /\ phase' = "cands"
    /\ UNCHANGED <<inp, vsum, csum, out>>

LookupV ==
    /\ phase = "cands"
    /\ vsum' = [pq \in cand |-> FoldLeft(LAMBDA acc, c : acc + inp.vd[c][pq[1]][pq[2]], 0, Iota(inp.nchains))]
    /\ phase' = "vdone"
    /\ UNCHANGED <<inp, cand, csum, out>>

Cdr3Dist ==
    /\ phase = "vdone"
    /\ csum' = [pq \in cand |-> FoldLeft(LAMBDA acc, c : acc + inp.c3[c][pq[1]][pq[2]], 0, Iota(inp.nchains))]
    /\ phase' = "cdone"
    /\ UNCHANGED <<inp, cand, vsum, out>>

SumFilter ==
    /\ phase = "cdone"
    /\ out' = { <<pq[1], pq[2], vsum[pq] + csum[pq]>> : pq \in { xy \in cand : vsum[xy] + csum[xy] <= inp.maxt } }
    /\ phase' = "done"
    /\ UNCHANGED <<inp, cand, vsum, csum>>

Next == EditCandidates \/ LookupV \/ Cdr3Dist \/ SumFilter
Spec == Init /\ [][Next]_tvars

ResultExact == phase = "done" => out = Expected(inp)
ResultSymmetric == phase = "done" => \A t \in out : <<t[2], t[1], t[3]>> \in out
\* whether a pair is returned depends only on the two radii
OnlyRadii == phase = "done" =>
    \A p, q \in 1..Len(inp.T) : p # q =>
        ((\E t \in out : t[1] = p /\ t[2] = q) <=> (Lev(inp.T[p], inp.T[q]) <= inp.k /\ Total(inp, p, q) <= inp.maxt))

\* bundled V tables (checked on the CSV content in traces)
TableOK(m) == /\ \A i \in 1..Len(m) : Len(m[i]) = Len(m) /\ m[i][i] = 0
              /\ \A i, j \in 1..Len(m) : m[i][j] = m[j][i]
=============================================================================
