------------------------------- MODULE BigInt -------------------------------
(***************************************************************************)
(* Arbitrary-precision integers and rationals for TLC.                     *)
(*                                                                         *)
(* TLC's integers are 32-bit and an overflow is an error, so the closed    *)
(* forms of the estimators (C06, C16) cannot be evaluated by Rational.tla  *)
(* for realistic sample sizes: N(N-1)(N-2)(N-3) leaves 32 bits at N = 217  *)
(* and 64 bits at N = 55 111 - exactly where an implementation that forms  *)
(* such a product in a fixed-width integer goes wrong.  This module gives  *)
(* the specification its own exact arithmetic:                             *)
(*   natural  = little-endian sequence of limbs in 0..Base-1 without       *)
(*              leading (= trailing in the sequence) zeros; 0 = << >>      *)
(*   integer  = <<sign, natural>>, sign in {-1, 0, 1}                      *)
(*   rational = <<integer, natural>>, denominator > 0, NOT normalised      *)
(*              (equality and order are decided by cross-multiplication)   *)
(* Base * Base and Base * Base + 2 * Base must stay below 2^31             *)
(* (Base = 10000 in use; the self-test MCBigInt uses Base = 10 so that      *)
(* every carry / borrow path is exercised by small numbers).               *)
(***************************************************************************)
EXTENDS Integers, Sequences, SequencesExt, TLC

CONSTANT Base

BWith(v, F(_)) == CHOOSE r \in { F(x) : x \in {v} } : TRUE
Max2B(a, b) == IF a >= b THEN a ELSE b
Dig(a, i) == IF i <= Len(a) THEN a[i] ELSE 0

\* ---- naturals
RECURSIVE NatOf(_)
NatOf(n) == IF n = 0 THEN << >> ELSE <<n % Base>> \o NatOf(n \div Base)          \* n >= 0
RECURSIVE Strip(_)
Strip(a) == IF a = << >> THEN a ELSE IF a[Len(a)] = 0 THEN Strip(SubSeq(a, 1, Len(a) - 1)) ELSE a

RECURSIVE NAddC(_, _, _, _)
NAddC(a, b, i, c) == IF i > Max2B(Len(a), Len(b)) THEN (IF c = 0 THEN << >> ELSE <<c>>)
                     ELSE BWith(Dig(a, i) + Dig(b, i) + c, LAMBDA s : <<s % Base>> \o NAddC(a, b, i + 1, s \div Base))
NAdd(a, b) == NAddC(a, b, 1, 0)

\* -1, 0, 1 as a < b, a = b, a > b
RECURSIVE NCmpFrom(_, _, _)
NCmpFrom(a, b, i) == IF i = 0 THEN 0 ELSE IF a[i] < b[i] THEN -1 ELSE IF a[i] > b[i] THEN 1 ELSE NCmpFrom(a, b, i - 1)
NCmp(a, b) == IF Len(a) < Len(b) THEN -1 ELSE IF Len(a) > Len(b) THEN 1 ELSE NCmpFrom(a, b, Len(a))

\* a - b for a >= b
RECURSIVE NSubB(_, _, _, _)
NSubB(a, b, i, br) == IF i > Len(a) THEN << >>
                      ELSE BWith(a[i] - Dig(b, i) - br, LAMBDA d :
                                 IF d < 0 THEN <<d + Base>> \o NSubB(a, b, i + 1, 1) ELSE <<d>> \o NSubB(a, b, i + 1, 0))
NSub(a, b) == Strip(NSubB(a, b, 1, 0))

RECURSIVE NMulDigC(_, _, _, _)
NMulDigC(a, d, i, c) == IF i > Len(a) THEN (IF c = 0 THEN << >> ELSE <<c>>)
                        ELSE BWith(a[i] * d + c, LAMBDA p : <<p % Base>> \o NMulDigC(a, d, i + 1, p \div Base))
NMulDig(a, d) == IF d = 0 THEN << >> ELSE NMulDigC(a, d, 1, 0)
Shift(a, k) == IF a = << >> THEN a ELSE [i \in 1..k |-> 0] \o a
NMul(a, b) == FoldLeft(LAMBDA acc, i : NAdd(acc, Shift(NMulDig(a, b[i]), i - 1)), << >>, [i \in 1..Len(b) |-> i])

\* ---- integers
BZero == <<0, << >> >>
BOf(n) == IF n = 0 THEN BZero ELSE IF n > 0 THEN <<1, NatOf(n)>> ELSE <<-1, NatOf(0 - n)>>
BNeg(a) == <<0 - a[1], a[2]>>
BAdd(a, b) == IF a[1] = 0 THEN b ELSE IF b[1] = 0 THEN a
              ELSE IF a[1] = b[1] THEN <<a[1], NAdd(a[2], b[2])>>
              ELSE BWith(NCmp(a[2], b[2]), LAMBDA c :
                         IF c = 0 THEN BZero ELSE IF c > 0 THEN <<a[1], NSub(a[2], b[2])>> ELSE <<b[1], NSub(b[2], a[2])>>)
BSub(a, b) == BAdd(a, BNeg(b))
BMul(a, b) == IF a[1] = 0 \/ b[1] = 0 THEN BZero ELSE <<a[1] * b[1], NMul(a[2], b[2])>>
BCmp(a, b) == BSub(a, b)[1]                    \* sign of a - b
\* sum / product of a sequence of small (32-bit) integers, exactly
BSumInts(seq) == FoldLeft(LAMBDA acc, v : BAdd(acc, BOf(v)), BZero, seq)
BProdInts(seq) == FoldLeft(LAMBDA acc, v : BMul(acc, BOf(v)), BOf(1), seq)

\* ---- rationals <<integer, natural denominator>>
QOf(n) == <<BOf(n), NatOf(1)>>
QFracB(num, den) == IF den[1] < 0 THEN <<BNeg(num), den[2]>> ELSE <<num, den[2]>>      \* den # 0
QFrac(n, d) == QFracB(BOf(n), BOf(d))
QAdd(a, b) == <<BAdd(BMul(a[1], <<1, b[2]>>), BMul(b[1], <<1, a[2]>>)), NMul(a[2], b[2])>>
QNeg(a) == <<BNeg(a[1]), a[2]>>
QSub(a, b) == QAdd(a, QNeg(b))
QMul(a, b) == <<BMul(a[1], b[1]), NMul(a[2], b[2])>>
QCmp(a, b) == BCmp(BMul(a[1], <<1, b[2]>>), BMul(b[1], <<1, a[2]>>))
QEq(a, b) == QCmp(a, b) = 0
\* the small rational <<p, q>> of Rational.tla (q > 0)
QOfRat(r) == <<BOf(r[1]), NatOf(r[2])>>

\* ---- back to TLC integers (self-test only; the value must fit)
RECURSIVE NatVal(_)
NatVal(a) == IF a = << >> THEN 0 ELSE a[1] + Base * NatVal(Tail(a))
BVal(a) == a[1] * NatVal(a[2])
WellFormedNat(a) == (\A i \in 1..Len(a) : a[i] \in 0..(Base - 1)) /\ (a = << >> \/ a[Len(a)] # 0)
WellFormed(a) == a[1] \in {-1, 0, 1} /\ WellFormedNat(a[2]) /\ ((a[1] = 0) <=> (a[2] = << >>))
=============================================================================
