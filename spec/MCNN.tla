-------------------------------- MODULE MCNN --------------------------------
(* Model-checking wrapper of NNSearch: emits every finished behaviour as one  *)
(* JSON document (spec -> code replay).                                        *)
EXTENDS NNSearch, Json

IndexAsSeq == IF inp.engine = "kd"
              THEN index
              ELSE SetToSeq({ <<v, index[v]>> : v \in DOMAIN index })

EmitCase == (phase = "done") =>
    PrintT(ToJson([inp |-> inp, index |-> IndexAsSeq, cand |-> SetToSeq(cand),
                   trip |-> SetToSeq(trip), dense |-> dense]))
=============================================================================
