------------------------------- MODULE Session -------------------------------
(***************************************************************************)
(* API sessions (property C20): a history of public pyrepseq calls made in *)
(* one interpreter, sharing module-level state.                            *)
(*                                                                         *)
(* mod is the projection of everything that survives a call:               *)
(*   cal     owner of the module-level parameter block nn._cal_params       *)
(*           (0 = never set, else the position of the kdtree call that      *)
(*           wrote it)                                                      *)
(*   ticks   whether the dict-valued default cbar_kws of                    *)
(*           similarity_clustermap carries a 'ticks' entry                  *)
(*   dflt    whether any other dict default (linkage_kws, cluster_kws,      *)
(*           palette_kws, tcrdist_kwargs) has been modified                 *)
(*   rng     state of NumPy's global generator: <<"fresh">>, <<"seeded", s>>*)
(*           or <<"advanced", s, k>>                                        *)
(*                                                                         *)
(* Every catalogue entry belongs to a CLASS that fixes what it reads and   *)
(* writes; Call(c) is one action per class.  Deviations model the pinned   *)
(* commit ("cbar_ticks_leak": the default call writes ticks into the shared *)
(* default, a call with a custom norm reads them) and seeded mutants.      *)
(***************************************************************************)
EXTENDS Naturals, Sequences, FiniteSets, TLC

CONSTANTS Classes, MaxHist, Seeds, Deviations

VARIABLES mod, hist, results, argsok
vars == <<mod, hist, results, argsok>>

Fresh == [cal |-> 0, ticks |-> FALSE, dflt |-> FALSE, rng |-> <<"fresh">>]

\* what a call of class c returns when started in module state m (abstract value)
Result(c, m, at) ==
    CASE c = "cm_norm" -> <<c, IF "cbar_ticks_leak" \in Deviations THEN m.ticks ELSE FALSE>>        \* as found: stale ticks are shown
      [] c = "kd" -> <<c, IF "kd_reads_before_write" \in Deviations THEN m.cal ELSE at>>          \* reads the block it has just written
      [] c = "random" -> <<c, m.rng>>                                                             \* a function of the generator state
      [] c \in {"hc_default", "hls", "tcrdist"} -> <<c, IF "default_mutated" \in Deviations THEN m.dflt ELSE FALSE>>
      [] OTHER -> <<c, 0>>
\* module state after the call
After(c, m, at) ==
    CASE c = "kd" -> [m EXCEPT !.cal = at]
      [] c = "cm_default" -> IF "cbar_ticks_leak" \in Deviations THEN [m EXCEPT !.ticks = TRUE] ELSE m
      [] c = "hc_custom" -> IF "default_mutated" \in Deviations THEN [m EXCEPT !.dflt = TRUE] ELSE m
      [] c = "random" -> [m EXCEPT !.rng = IF m.rng[1] = "fresh" THEN <<"advanced", 0, 1>>
                                          ELSE IF m.rng[1] = "seeded" THEN <<"advanced", m.rng[2], 1>>
                                          ELSE <<"advanced", m.rng[2], m.rng[3] + 1>>]
      [] OTHER -> m

Init == mod = Fresh /\ hist = <<>> /\ results = <<>> /\ argsok = TRUE

\* a deterministic call (raising calls included: they leave no trace)
Call(c) == /\ Len(hist) < MaxHist /\ c # "random"
           /\ results' = Append(results, <<Result(c, mod, Len(hist) + 1), Result(c, Fresh, Len(hist) + 1)>>)
           /\ mod' = After(c, mod, Len(hist) + 1)
           /\ hist' = Append(hist, <<c, 0>>)
           /\ argsok' = argsok
\* a randomised call is preceded by seeding NumPy's generator
SeededCall(s) == /\ Len(hist) < MaxHist /\ "random" \in Classes
                 /\ LET seeded == [mod EXCEPT !.rng = <<"seeded", s>>]
                        fresh == [Fresh EXCEPT !.rng = <<"seeded", s>>]
                    IN /\ results' = Append(results, <<Result("random", seeded, Len(hist) + 1), Result("random", fresh, Len(hist) + 1)>>)
                       /\ mod' = After("random", seeded, Len(hist) + 1)
                 /\ hist' = Append(hist, <<"random", s>>)
                 /\ argsok' = argsok

Next == (\E c \in Classes : Call(c)) \/ (\E s \in Seeds : SeededCall(s))
Spec == Init /\ [][Next]_vars

(***************************************************************************)
(* Properties                                                              *)
(***************************************************************************)
\* a call returns what it would return as the first call of a fresh interpreter, after ANY history
HistoryIndependence == \A i \in 1..Len(results) : results[i][1] = results[i][2]
\* defaults and other module state are never altered in a way that could change later results
DefaultsIntact == mod.ticks = FALSE /\ mod.dflt = FALSE
ArgsUntouched == argsok
=============================================================================
