----------------------------- MODULE MCSummaries -----------------------------
EXTENDS Summaries, Json
EmitCase == Done => PrintT(ToJson(
    CASE kind = "align" -> [kind |-> kind, seqs |-> seqs, lang |-> SetToSeq(Lang(seqs, 1)),
                            consensus |-> [p \in 1..Len(seqs[1]) |-> SetToSeq(MostFrequent(seqs, p))],
                            gapmajority |-> [p \in 1..Len(seqs[1]) |-> 2 * Cardinality({ i \in 1..Len(seqs) : seqs[i][p] = Gap }) > Len(seqs)],
                            counts |-> [p \in 1..Len(counts) |-> SetToSeq({ <<r, counts[p][r]>> : r \in Residues })]]
      [] kind = "rank" -> [kind |-> kind, vals |-> vals, opt |-> opt, out |-> out]
      [] kind = "scatter" -> [kind |-> kind, vals |-> vals, out |-> out]))
=============================================================================
