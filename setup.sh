#!/bin/sh
# Offline setup: parse every TLA+ module with SANY and byte-check the harness. Nothing is fetched.
set -e
HERE="$(cd "$(dirname "$0")" && pwd)"
cd "$HERE/spec"
fail=0
for f in *.tla; do
  out=$(java -Xmx512m -XX:+UseSerialGC -cp /opt/veriftools/tla/tla2tools.jar:/opt/veriftools/tla/CommunityModules-deps.jar tla2sany.SANY "$f" 2>&1) || true
  if echo "$out" | grep -q -E "Semantic errors|Parse Error|Fatal errors|Could not"; then echo "SANY FAILED: $f"; echo "$out" | tail -20; fail=1; fi
done
cd "$HERE"
PYTHONDONTWRITEBYTECODE=1 PYTHONPATH="$HERE/harness:/repo" /venv/bin/python - <<'PY'
import importlib, pkgutil, sys
import pv, pv.props
for m in pkgutil.iter_modules(pv.__path__):
    importlib.import_module("pv." + m.name)
for m in pkgutil.iter_modules(pv.props.__path__):
    importlib.import_module("pv.props." + m.name)
print("harness imports ok")
PY
mkdir -p "$HERE/evidence" "$HERE/replays"
[ $fail -eq 0 ] && echo "setup ok" || exit 1
